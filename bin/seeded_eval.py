#!/venv/bin/python
"""Confirm a seeded change and run the registered check against it.

usage: seeded_eval.py <dir with patch.diff, demo.py[, notes.md]> <seeded id> <property> [--skip-tests] [--tier quick]

1. scratch worktree of /repo HEAD (outside /repo and /verif); demo.py must exit 0 on it;
2. apply patch.diff; demo.py must now exit non-zero;
3. the repository's own test suite must pass exactly as on the clean tree (stable set of BASELINE.json);
4. run `bin/check <property>` with VERIF_REPO pointing at the patched worktree; record caught / missed,
   and whether the replay file reproduces in a fresh process;
5. write /verif/seeded/<id>/{patch.diff, demo.py, meta.json}; remove the worktree.
"""
import json
import os
import re
import shutil
import subprocess
import sys
import tempfile
import time

VERIF = os.path.dirname(os.path.dirname(os.path.abspath(__file__)))
PY = "/venv/bin/python"


def run(cmd, **kw):
    return subprocess.run(cmd, capture_output=True, text=True, **kw)


def main():
    src, sid, pid = sys.argv[1:4]
    src = os.path.abspath(src)
    skip_tests = "--skip-tests" in sys.argv
    phase = "both"
    if "--phase" in sys.argv:
        phase = sys.argv[sys.argv.index("--phase") + 1]
    tier = "quick"
    if "--tier" in sys.argv:
        tier = sys.argv[sys.argv.index("--tier") + 1]
    tmp = tempfile.mkdtemp(prefix="verif-seeded-")
    wt = os.path.join(tmp, "tree")
    meta = {"id": sid, "property": pid, "source": src}
    prev = os.path.join(VERIF, "seeded", sid, "meta.json")
    if os.path.exists(prev):
        meta.update(json.load(open(prev)))
    try:
        run(["git", "-C", "/repo", "worktree", "add", "-q", "--detach", wt, "HEAD"], check=True)
        env = dict(os.environ, PYTHONPATH=wt, PYTHONHASHSEED="0", NUMBA_DISABLE_PERFORMANCE_WARNINGS="1")
        demo = os.path.join(src, "demo.py")
        r0 = run([PY, demo], env=env, cwd=wt, timeout=1800)
        meta["demo_clean_exit"] = r0.returncode
        ap = run(["git", "-C", wt, "apply", os.path.join(src, "patch.diff")])
        meta["patch_applies"] = ap.returncode == 0
        if ap.returncode != 0:
            meta["error"] = ap.stderr[-400:]
            return finish(meta, src, sid)
        r1 = run([PY, demo], env=env, cwd=wt, timeout=1800)
        meta["demo_patched_exit"] = r1.returncode
        meta["demo_patched_tail"] = (r1.stdout + r1.stderr)[-500:]
        meta["files_changed"] = run(["git", "-C", wt, "diff", "--stat"]).stdout.strip().splitlines()[:-1]
        if not skip_tests and phase in ("both", "validity"):
            t0 = time.time()
            jx = os.path.join(tmp, "junit.xml")
            run([PY, "-m", "pytest", "-q", "-p", "no:cacheprovider", "--timeout=900",
                 "--continue-on-collection-errors", "--junitxml=" + jx, "xrspatial/tests"], env=env, cwd=wt, timeout=5400)
            base = set(json.load(open("/root/.vp/BASELINE.json"))["stable_pass"])
            import xml.etree.ElementTree as ET
            passed = set()
            for tc in ET.parse(jx).getroot().iter("testcase"):
                if not any(ch.tag in ("failure", "error", "skipped") for ch in tc):
                    passed.add("%s::%s" % (tc.get("classname"), tc.get("name")))
            meta["baseline_stable_pass"] = len(base)
            meta["baseline_now_failing"] = sorted(base - passed)
            meta["tests_wall_s"] = round(time.time() - t0)
        if phase == "validity":
            return finish(meta, src, sid)
        t0 = time.time()
        cenv = dict(os.environ, VERIF_REPO=wt, VERIF_REPLAY_DIR=os.path.join(tmp, "replays"),
                    VERIF_EVIDENCE_DIR=os.path.join(tmp, "evidence"))
        cenv.pop("PYTHONPATH", None)
        rc = run([os.path.join(VERIF, "bin", "check"), pid, "--tier", tier], env=cenv, timeout=7200)
        viol = [l for l in rc.stdout.splitlines() if l.startswith("VIOLATION")]
        det = [l.strip() for l in rc.stdout.splitlines() if l.startswith("  op=")]
        meta.setdefault("check_history", [])
        if meta.get("check"):
            meta["check_history"].append(meta["check"])
        meta["check"] = {"verif_commit": run(["git", "-C", VERIF, "rev-parse", "--short", "HEAD"]).stdout.strip(), "cmd": "VERIF_REPO=<patched tree> bin/check %s --tier %s" % (pid, tier), "exit": rc.returncode,
                         "violation_lines": len(viol), "first_violation": det[0][:400] if det else "",
                         "wall_s": round(time.time() - t0), "summary": rc.stdout.strip().splitlines()[-1][:300] if rc.stdout.strip() else ""}
        meta["caught"] = rc.returncode == 1 and bool(viol)
        if viol:
            rp = viol[0].split("replay=")[1].strip()
            r2 = run([os.path.join(VERIF, "bin", "check"), pid, "--replay", rp], env=cenv, timeout=3600)
            meta["check"]["replay_reproduces"] = r2.returncode == 1 and "VIOLATION" in r2.stdout
            try:
                rep = json.load(open(rp))
                meta["check"]["replay_minimised"] = rep.get("minimised", None)
                meta["check"]["minimise_log"] = rep.get("minimise_log", [])[-6:]
            except Exception:
                pass
        if rc.returncode == 2:
            meta["check"]["harness_output_tail"] = rc.stdout[-800:]
    finally:
        run(["git", "-C", "/repo", "worktree", "remove", "--force", wt])
        shutil.rmtree(tmp, ignore_errors=True)
    return finish(meta, src, sid)


def finish(meta, src, sid):
    out = os.path.join(VERIF, "seeded", sid)
    os.makedirs(out, exist_ok=True)
    for f in ("patch.diff", "demo.py", "notes.md"):
        a, b = os.path.join(src, f), os.path.join(out, f)
        if os.path.exists(a) and os.path.abspath(a) != os.path.abspath(b):
            shutil.copy(a, b)
    notes = os.path.join(src, "notes.md")
    if os.path.exists(notes):
        meta["needs_to_manifest"] = open(notes).read()[:1500]
    meta["ran"] = ["demo.py on clean scratch worktree (exit %s)" % meta.get("demo_clean_exit"),
                   "demo.py with patch applied (exit %s)" % meta.get("demo_patched_exit"),
                   "full pytest suite with patch (stable-baseline tests now failing: %s)" % meta.get("baseline_now_failing", "not run"),
                   (meta.get("check") or {}).get("cmd", "")]
    meta["valid"] = bool(meta.get("patch_applies") and meta.get("demo_clean_exit") == 0
                         and meta.get("demo_patched_exit") not in (0, None)
                         and meta.get("baseline_now_failing", []) == [])
    with open(os.path.join(out, "meta.json"), "w") as f:
        json.dump(meta, f, indent=1)
    print(json.dumps({k: meta.get(k) for k in ("id", "property", "valid", "caught", "demo_clean_exit", "demo_patched_exit",
                                                 "baseline_now_failing")}), (meta.get("check") or {}).get("first_violation", "")[:200])
    return 0


if __name__ == "__main__":
    sys.exit(main())

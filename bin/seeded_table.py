#!/usr/bin/env python3
"""Print the markdown table of seeded/<id>/meta.json (used for DESIGN.md section 9.6)."""
import glob
import json
import os
import re

VERIF = os.path.dirname(os.path.dirname(os.path.abspath(__file__)))
rows = []
for f in sorted(glob.glob(os.path.join(VERIF, "seeded", "*", "meta.json"))):
    m = json.load(open(f))
    c = m.get("check", {})
    notes = m.get("needs_to_manifest", "")
    title = notes.strip().splitlines()[0].lstrip("# ").strip() if notes.strip() else ""
    title = re.sub(r"^(c\d\d[a-d]\s*/\s*(mutant\s*)?\d|C\d\d mutant \d|Mutant \d+|C\d\d seeded change \d+)\s*[-:–]\s*", "", title, flags=re.I)[:105]
    fv = c.get("first_violation", "")
    cls = re.search(r"class=(\S+)", fv)
    op = re.search(r"op=(\S+)", fv)
    tier = "thorough" if "thorough" in c.get("cmd", "") else "quick"
    wave = {"a": 1, "b": 2, "c": 2 if m["id"].startswith("c01c") else 3, "d": 3, "e": 4}[m["id"][3]]
    if m["id"].startswith("c01b"):
        wave = 1
    if m["id"][:4] in ("c03d", "c07d", "c10d", "c11d"):
        wave = 4
    b = m.get("check_before_strengthening")
    rows.append((m["id"], m["property"], wave, title, (op.group(1) if op else "-"),
                 (cls.group(1) if cls else "result_varies_with_numba_threads"),
                 ("yes (%s)" % tier) if m.get("caught") else "NO",
                 "-" if b is None else ("yes" if b.get("caught") else "no")))
print("| id | prop | wave | change (author's words) | reported as (op / class) | caught by current checks (tier) | caught before that wave's strengthening |")
print("|---|---|---|---|---|---|---|")
for r in rows:
    print("| %s | %s | %d | %s | %s / %s | %s | %s |" % r)
n = len(rows)
print("\n%d changes; caught by the quick tier: %d; by the thorough tier only: %d; not caught: %d" % (
    n, sum(1 for r in rows if r[6] == "yes (quick)"), sum(1 for r in rows if r[6] == "yes (thorough)"),
    sum(1 for r in rows if r[6] == "NO")))

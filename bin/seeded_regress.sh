#!/bin/sh
# Re-run every kept seeded change against the checks as they are now (quick tier; the two
# thorough-only ones with a 600 s thorough run).  Results are merged into seeded/<id>/meta.json.
cd "$(dirname "$0")/.."
for d in seeded/*/; do
  id=$(basename "$d")
  pid=$(python3 -c "import json;print(json.load(open('$d/meta.json'))['property'])")
  case "$id" in
    c10c-1|c03c-1) VERIF_BUDGET_S=600 bin/seeded_eval.py "$d" "$id" "$pid" --phase check --skip-tests --tier thorough ;;
    *) bin/seeded_eval.py "$d" "$id" "$pid" --phase check --skip-tests ;;
  esac
done
echo REGRESS_DONE

"""Registry of the graphsim-decided properties."""
from . import gen_c01, oracles


class GraphProp:
    def __init__(self, pid, gen, owner, compare, reach, signature=None, fault_rate=0.12,
                 simplify=None, variants=None, shard=None, followups=None, valid=None, assignment=None):
        self.pid = pid
        self.gen = gen
        self.owner = owner
        self.compare = compare
        self.reach = reach
        self.signature = signature or default_signature
        self.fault_rate = fault_rate
        self.simplify = simplify
        self.variants = variants
        self.shard = shard      # case -> str: the JIT-specialisation class a case belongs to
        self.followups = followups
        self.assignment = assignment  # (nworkers, tier) -> {shard: worker}
        self.valid = valid          # case -> bool: inside the property's stated domain


def default_signature(case, violation):
    """What known_findings.json entries are matched against."""
    sig = {"op": case["op"], "class": violation.get("class")}
    exc = violation.get("exc")
    if exc:
        sig["exc_type"] = exc.get("type")
        sig["exc_where"] = exc.get("where")
    return sig


GRAPH_PROPS = {}


def _register():
    GRAPH_PROPS["C01"] = GraphProp("C01", gen_c01.gen_case, gen_c01.owner, oracles.c01, gen_c01.reach,
                                   shard=gen_c01.shard, valid=gen_c01.valid, assignment=gen_c01.assignment)
    try:
        from . import gen_c03
        GRAPH_PROPS["C03"] = GraphProp("C03", gen_c03.gen_case, gen_c03.owner, gen_c03.compare,
                                       gen_c03.reach, signature=gen_c03.signature, fault_rate=0.08,
                                       followups=gen_c03.followups)
    except ImportError:
        pass
    try:
        from . import gen_c07
        GRAPH_PROPS["C07"] = GraphProp("C07", gen_c07.gen_case, gen_c07.owner, gen_c07.compare,
                                       gen_c07.reach, fault_rate=0.10, variants=gen_c07.variants, valid=gen_c07.valid)
    except ImportError:
        pass


_register()

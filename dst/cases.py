"""Case format and op registry shared by every engine.

A *case* is plain data (JSON-able through dst.util):

    {"op": "slope", "params": {...},
     "rasters": [ {"data": ndarray, "dims": [...], "coords": {name: ndarray},
                   "scalar_coords": {name: value}, "attrs": {...},
                   "name": str|None, "chunks": [[..],[..]] | None} , ... ],
     "dask_config": {"array.chunk-size": "64 B", ...}}

`build(case, backend)` turns it into xarray objects on the requested backend
(fresh arrays every time - the case itself is never handed to the library).
`OPS[name](rasters, params)` performs the public call.
"""
import numpy as np
import xarray as xr
import dask.array as da

from . import determinism

determinism.use_repo_tree()

import xrspatial  # noqa: E402
from xrspatial import (aspect, curvature, slope, hillshade, perlin, generate_terrain,  # noqa: E402
                       proximity, allocation, direction, binary, reclassify, equal_interval,
                       quantile, natural_breaks)
from xrspatial import focal, convolution, zonal, multispectral, analytics  # noqa: E402
from xrspatial.utils import ngjit  # noqa: E402


# --------------------------------------------------------------------------
# user-supplied reducers for focal.apply (registry: replay files name them)
# --------------------------------------------------------------------------

@ngjit
def _user_posweight(a):
    # order sensitive: an asymmetric weight per window position makes a
    # transposed / mirrored / shifted window visible
    s = 0.0
    r, c = a.shape
    for i in range(r):
        for j in range(c):
            v = a[i, j]
            if not np.isnan(v):
                s += v * (1.0 + i * c + j)
    return s


@ngjit
def _user_count(a):
    n = 0.0
    r, c = a.shape
    for i in range(r):
        for j in range(c):
            if not np.isnan(a[i, j]):
                n += 1.0
    return n


REDUCERS = {
    "mean": focal._calc_mean, "sum": focal._calc_sum, "min": focal._calc_min,
    "max": focal._calc_max, "std": focal._calc_std, "range": focal._calc_range,
    "var": focal._calc_var, "user_posweight": _user_posweight, "user_count": _user_count,
}


# --------------------------------------------------------------------------
# building rasters
# --------------------------------------------------------------------------

def build_raster(spec, backend, chunks=None):
    data = np.array(spec["data"], copy=True)
    if spec.get("order") == "F":
        data = np.asfortranarray(data)
    if backend == "dask":
        ch = chunks if chunks is not None else spec.get("chunks")
        if ch is None:
            ch = tuple((s,) for s in data.shape)
        ch = tuple(tuple(int(c) for c in ax) for ax in ch)
        arr = da.from_array(data, chunks=ch)
    else:
        arr = data
    coords = {k: (k, np.array(v, copy=True)) for k, v in spec.get("coords", {}).items()}
    for k, v in spec.get("scalar_coords", {}).items():
        coords[k] = v
    import copy
    return xr.DataArray(arr, dims=tuple(spec["dims"]), coords=coords,
                        attrs=copy.deepcopy(spec.get("attrs", {})), name=spec.get("name"))


def build(case, backend):
    return [build_raster(r, backend) for r in case["rasters"]]


def n_blocks(case):
    out = []
    for r in case["rasters"]:
        ch = r.get("chunks")
        out.append([len(ax) for ax in ch] if ch else [1] * np.ndim(r["data"]))
    return out


# --------------------------------------------------------------------------
# ops
# --------------------------------------------------------------------------

def _k(params, name="kernel"):
    return np.array(params[name], dtype=np.float64, copy=True)


OPS = {}


def op(name):
    def deco(f):
        OPS[name] = f
        return f
    return deco


@op("slope")
def _(r, p):
    return slope(r[0])


@op("aspect")
def _(r, p):
    return aspect(r[0])


@op("curvature")
def _(r, p):
    return curvature(r[0])


@op("hillshade")
def _(r, p):
    return hillshade(r[0], azimuth=p.get("azimuth", 225), angle_altitude=p.get("angle_altitude", 25))


@op("summarize_terrain")
def _(r, p):
    return analytics.summarize_terrain(r[0])


@op("focal_mean")
def _(r, p):
    kw = {}
    if "excludes" in p:
        kw["excludes"] = list(p["excludes"])
    return focal.mean(r[0], passes=p.get("passes", 1), **kw)


@op("focal_apply")
def _(r, p):
    return focal.apply(r[0], _k(p), REDUCERS[p.get("func", "mean")])


@op("focal_stats")
def _(r, p):
    kw = {}
    if "stats_funcs" in p:
        kw["stats_funcs"] = list(p["stats_funcs"])
    return focal.focal_stats(r[0], _k(p), **kw)


@op("hotspots")
def _(r, p):
    return focal.hotspots(r[0], _k(p))


@op("convolution_2d")
def _(r, p):
    return convolution.convolution_2d(r[0], _k(p))


@op("binary")
def _(r, p):
    return binary(r[0], list(p["values"]))


@op("reclassify")
def _(r, p):
    return reclassify(r[0], list(p["bins"]), list(p["new_values"]))


@op("equal_interval")
def _(r, p):
    return equal_interval(r[0], k=p.get("k", 5))


@op("quantile")
def _(r, p):
    return quantile(r[0], k=p.get("k", 4))


@op("natural_breaks")
def _(r, p):
    return natural_breaks(r[0], k=p.get("k", 5), num_sample=p.get("num_sample", 20000))


def _ms(fn, nb):
    def f(r, p):
        return fn(*r[:nb], **{k: v for k, v in p.items()})
    return f


OPS["arvi"] = _ms(multispectral.arvi, 3)
OPS["evi"] = _ms(multispectral.evi, 3)
OPS["gci"] = _ms(multispectral.gci, 2)
OPS["nbr"] = _ms(multispectral.nbr, 2)
OPS["nbr2"] = _ms(multispectral.nbr2, 2)
OPS["ndvi"] = _ms(multispectral.ndvi, 2)
OPS["ndmi"] = _ms(multispectral.ndmi, 2)
OPS["savi"] = _ms(multispectral.savi, 2)
OPS["sipi"] = _ms(multispectral.sipi, 3)
OPS["ebbi"] = _ms(multispectral.ebbi, 3)
OPS["true_color"] = _ms(multispectral.true_color, 3)


@op("perlin")
def _(r, p):
    return perlin(r[0], freq=tuple(p.get("freq", (1, 1))), seed=p.get("seed", 5))


@op("generate_terrain")
def _(r, p):
    kw = {}
    for k in ("x_range", "y_range", "full_extent"):
        if p.get(k) is not None:
            kw[k] = tuple(p[k])
    return generate_terrain(r[0], seed=p.get("seed", 10), zfactor=p.get("zfactor", 4000), **kw)


def _prox(fn):
    def f(r, p):
        kw = {}
        if p.get("target_values") is not None:
            kw["target_values"] = list(p["target_values"])
        if p.get("max_distance") is not None:
            kw["max_distance"] = p["max_distance"]
        if p.get("distance_metric") is not None:
            kw["distance_metric"] = p["distance_metric"]
        return fn(r[0], **kw)
    return f


OPS["proximity"] = _prox(proximity)
OPS["allocation"] = _prox(allocation)
OPS["direction"] = _prox(direction)


@op("zonal_stats")
def _(r, p):
    kw = {}
    if p.get("zone_ids") is not None:
        kw["zone_ids"] = list(p["zone_ids"])
    if p.get("stats_funcs") is not None:
        kw["stats_funcs"] = list(p["stats_funcs"])
    if p.get("nodata_values") is not None:
        kw["nodata_values"] = p["nodata_values"]
    return zonal.stats(r[0], r[1], **kw)


@op("zonal_crosstab")
def _(r, p):
    kw = {}
    for k in ("zone_ids", "cat_ids"):
        if p.get(k) is not None:
            kw[k] = list(p[k])
    for k in ("layer", "agg", "nodata_values"):
        if p.get(k) is not None:
            kw[k] = p[k]
    return zonal.crosstab(r[0], r[1], **kw)


# --------------------------------------------------------------------------
# NumPy-only ops (histories: C10 / C11)
# --------------------------------------------------------------------------

@op("viewshed")
def _(r, p):
    from xrspatial import viewshed
    return viewshed(r[0], x=p["x"], y=p["y"], observer_elev=p.get("observer_elev", 0),
                    target_elev=p.get("target_elev", 0))


@op("a_star_search")
def _(r, p):
    from xrspatial import a_star_search
    kw = {}
    if p.get("barriers") is not None:
        kw["barriers"] = list(p["barriers"])
    for k in ("connectivity", "snap_start", "snap_goal"):
        if p.get(k) is not None:
            kw[k] = p[k]
    return a_star_search(r[0], tuple(p["start"]), tuple(p["goal"]), **kw)


@op("regions")
def _(r, p):
    return zonal.regions(r[0], neighborhood=p.get("neighborhood", 4))


ZONAL_APPLY_FUNCS = {"double": lambda x: x * 2, "plus1": lambda x: x + 1, "zero": lambda x: 0}


@op("zonal_apply")
def _(r, p):
    # by contract updates `values` in place and returns None: the result is `values`
    zonal.apply(r[0], r[1], ZONAL_APPLY_FUNCS[p.get("func", "double")], nodata=p.get("nodata", 0))
    return r[1]


@op("trim")
def _(r, p):
    kw = {}
    if p.get("values") is not None:
        kw["values"] = tuple(p["values"])
    return zonal.trim(r[0], **kw)


@op("crop")
def _(r, p):
    return zonal.crop(r[0], r[1], tuple(p["zones_ids"]))


CUSTOM_STATS = {"dbl_sum": lambda z: z.sum() * 2, "rng": lambda z: z.max() - z.min(),
                "first": lambda z: z[0],
                # a user's own statistic that happens to be called like a built-in one
                "mean": lambda z: z.max() * 1.0}


@op("zonal_stats_custom")
def _(r, p):
    funcs = {k: CUSTOM_STATS[k] for k in p["stats_funcs"]}
    kw = {}
    if p.get("zone_ids") is not None:
        kw["zone_ids"] = list(p["zone_ids"])
    if p.get("return_type"):
        kw["return_type"] = p["return_type"]
    return zonal.stats(r[0], r[1], stats_funcs=funcs, **kw)


@op("zonal_stats_xarray")
def _(r, p):
    kw = {}
    if p.get("stats_funcs") is not None:
        kw["stats_funcs"] = list(p["stats_funcs"])
    if p.get("zone_ids") is not None:
        kw["zone_ids"] = list(p["zone_ids"])
    return zonal.stats(r[0], r[1], return_type="xarray.DataArray", **kw)


def _dataset(r):
    names = "abcdefgh"
    return xr.Dataset({names[i]: x for i, x in enumerate(r)})


def _local(name, has_ref):
    def f(r, p):
        from xrspatial import local
        fn = getattr(local, name)
        ds = _dataset(r)
        kw = {}
        if p.get("data_vars") is not None:
            kw["data_vars"] = list(p["data_vars"])
        if name == "cell_stats" and p.get("func") is not None:
            kw["func"] = p["func"]
        if has_ref:
            return fn(ds, p.get("ref_var", "a"), **kw)
        return fn(ds, **kw)
    return f


for _n, _ref in (("cell_stats", False), ("combine", False), ("lesser_frequency", True),
                 ("equal_frequency", True), ("greater_frequency", True), ("lowest_position", False),
                 ("highest_position", False), ("popularity", True), ("rank", True)):
    OPS["local_" + _n] = _local(_n, _ref)


@op("polygonize")
def _(r, p):
    from xrspatial.experimental import polygonize
    kw = {"connectivity": p.get("connectivity", 4)}
    if len(r) > 1:
        kw["mask"] = r[1]
    if p.get("transform") is not None:
        kw["transform"] = np.array(p["transform"], dtype=np.float64)
    return polygonize(r[0], **kw)


@op("circle_kernel")
def _(r, p):
    return convolution.circle_kernel(p["cellsize_x"], p["cellsize_y"], p["radius"])


@op("annulus_kernel")
def _(r, p):
    return convolution.annulus_kernel(p["cellsize_x"], p["cellsize_y"], p["outer_radius"], p["inner_radius"])


@op("calc_cellsize")
def _(r, p):
    return list(convolution.calc_cellsize(r[0]))


@op("bump")
def _(r, p):
    from xrspatial import bump
    return bump(p.get("width", 8), p.get("height", 6), count=p.get("count"), spread=p.get("spread", 1))


# --------------------------------------------------------------------------
# materialising results
# --------------------------------------------------------------------------

def is_lazy(out):
    """'Dask-backed until computed' for every output kind the ops return."""
    import dask.dataframe as dd
    if isinstance(out, xr.Dataset):
        # the input variable of summarize_terrain is carried along as is
        return all(isinstance(v.data, da.Array) for v in out.data_vars.values())
    if isinstance(out, xr.DataArray):
        return isinstance(out.data, da.Array)
    return isinstance(out, dd.DataFrame)


def materialise(out):
    """Compute a lazy result (under whichever scheduler is configured)."""
    import pandas as pd
    if isinstance(out, xr.Dataset):
        return {k: np.asarray(v.data.compute() if isinstance(v.data, da.Array) else v.data)
                for k, v in out.data_vars.items()}
    if isinstance(out, xr.DataArray):
        d = out.data
        return np.asarray(d.compute() if isinstance(d, da.Array) else d)
    if isinstance(out, pd.DataFrame):
        return out
    return out.compute()

"""C03: zonal stats / crosstab on Dask == NumPy table for every chunking."""
import copy
import numpy as np
import pandas as pd

from . import gen_common as g

OPS = ["zonal_stats", "zonal_stats", "zonal_crosstab", "zonal_crosstab3d"]
ALL_STATS = ["mean", "max", "min", "sum", "std", "var", "count"]
MAX_BLOCKS = 12
QUICK_BLOCKS = 8


def func_of(i):
    return OPS[i % len(OPS)]


def owner(i, nworkers):
    # every worker compiles the same two small kernels; spread evenly
    return i % nworkers


def _zones(rng, H, W, dtype):
    nprs = np.random.RandomState(rng.getrandbits(32))
    if np.dtype(dtype).kind == "f":
        alphabet = rng.choice([[0.0, 1.0, 2.0, 3.0], [-1.0, 0.5, 1.5, 7.0], [10.0, 20.0], [0.0, 1.0, 2.0, 3.0, 4.0, 5.0, 6.0]])
    else:
        alphabet = rng.choice([[0, 1, 2, 3], [-3, 0, 5, 11], [1, 2], [0, 1, 2, 3, 4, 5, 6], [7]])
    layout = rng.choice(["random", "random", "bands", "blocks", "rare"])
    n = len(alphabet)
    if layout == "random":
        idx = nprs.randint(0, n, (H, W))
    elif layout == "bands":
        idx = np.repeat(np.arange(H)[:, None] * n // max(H, 1), W, axis=1)
    elif layout == "blocks":
        idx = (np.arange(H)[:, None] // 2 + np.arange(W)[None, :] // 3) % n
    else:  # one zone present in a single cell only
        idx = nprs.randint(0, max(n - 1, 1), (H, W))
        idx[rng.randrange(H), rng.randrange(W)] = n - 1
    z = np.array(alphabet, dtype=dtype)[idx % n]
    if z.dtype.kind == "f" and rng.random() < 0.4:
        z[nprs.rand(H, W) < 0.15] = np.nan
    if z.dtype.kind == "f" and rng.random() < 0.15:
        # +inf is not a zone (only finite ids are); it sorts behind every id like NaN does
        z[nprs.rand(H, W) < 0.1] = np.inf
    return z, [a for a in alphabet]


def _values(rng, shape, dtype, cats=False):
    nprs = np.random.RandomState(rng.getrandbits(32))
    dt = np.dtype(dtype)
    if cats:
        alphabet = rng.choice([[0, 1, 2], [1, 5, 9, 12], [3], [0, 1, 2, 3, 4, 5]])
        v = np.array(alphabet, dtype=dt)[nprs.randint(0, len(alphabet), shape)]
    else:
        style = rng.choice(["normal", "tenths", "uniform", "const", "smallint"])
        if dt.kind == "i" and rng.random() < 0.15:
            style = "bigint"       # wave 4, c03d-2: integer partial sums (of squares) that wrap only for large magnitudes
        if style == "bigint":
            v = nprs.randint(2_000_000_000, 2_147_483_647, shape).astype(float) * nprs.choice([-1.0, 1.0], shape)
        elif style == "normal":
            v = nprs.normal(0, 100, shape)
        elif style == "tenths":
            v = nprs.randint(-500, 500, shape) / 10.0
        elif style == "uniform":
            v = nprs.uniform(0, 1e3, shape)
        elif style == "const":
            v = np.full(shape, rng.choice([0.0, 1.0, 7.5, -3.0, 1000.0]))
        else:
            v = nprs.randint(0, 6, shape).astype(float)
        if dt.kind == "u":
            v = np.abs(v)
        if dt.kind in "iu":
            v = np.round(v)
        v = v.astype(dt)
    if dt.kind == "f":
        p = rng.choice([0.0, 0.1, 0.4])
        if p:
            v[nprs.rand(*shape) < p] = np.nan
        if rng.random() < 0.2:
            m = nprs.rand(*shape) < 0.05
            v[m] = np.inf
        if rng.random() < 0.15:
            m = nprs.rand(*shape) < 0.05
            v[m] = -np.inf
    return v


def _ids(rng, present, universe):
    """None | subset | permutation | with absent ids, always >= 1 existing."""
    r = rng.random()
    if r < 0.4 or not present:
        return None
    present = list(present)
    if r < 0.6:
        k = rng.randint(1, len(present))
        return sorted(rng.sample(present, k))
    if r < 0.8:
        out = list(present)
        rng.shuffle(out)
        return out
    k = rng.randint(1, len(present))
    out = rng.sample(present, k) + [u for u in universe if u not in present][:2] + [99]
    rng.shuffle(out)
    return out


def gen_case(st, i, tier="quick", op=None):
    rng = st["case"]
    op = op or func_of(i)
    hi = 12 if tier == "quick" else 20
    H, W = rng.randint(1, hi), rng.randint(1, hi)
    if rng.random() < 0.1:
        H = 1
    zdt = rng.choice(["i4", "i8", "f4", "f8"])
    z, alphabet = _zones(rng, H, W, zdt)
    geo = g.georef(rng, H, W)
    x, y, attrs, _ = geo
    zones = {"data": z, "dims": ["y", "x"], "coords": {"y": y.copy(), "x": x.copy()},
             "attrs": dict(attrs), "name": "zones", "chunks": None}
    present = sorted(set(float(v) if z.dtype.kind == "f" else int(v) for v in z[np.isfinite(z)].ravel().tolist()))
    universe = [float(a) if z.dtype.kind == "f" else int(a) for a in alphabet]
    params = {}
    if not present:
        # all-NaN zones: no requested zone can exist -> outside the stated domain; regenerate trivially
        z[0, 0] = alphabet[0]
        present = [universe[0]]
    params["zone_ids"] = _ids(rng, present, universe)

    crng = st["chunks"]
    MB = QUICK_BLOCKS if tier == "quick" else MAX_BLOCKS
    many = tier == "thorough" and op == "zonal_stats" and rng.random() < 0.04
    if many:
        # merges over many partial results (13..20 blocks): ~20 000 tasks, 10-80 s per run, so rare,
        # with a short stat list, and only in the thorough tier
        MB = rng.choice([13, 15, 16, 17, 17, 18, 20])      # around a power of two (tree merges)
    if op == "zonal_stats":
        vdt = rng.choice(["i4", "i8", "u1", "f4", "f8", "f8"])
        v = _values(rng, (H, W), vdt)
        values = {"data": v, "dims": ["y", "x"], "coords": {"y": y.copy(), "x": x.copy()},
                  "attrs": dict(attrs), "name": "values", "chunks": None}
        r = rng.random()
        if r < 0.4:
            params["stats_funcs"] = None
        else:
            params["stats_funcs"] = rng.sample(ALL_STATS, rng.randint(1, 7))
        params["nodata_values"] = _nodata(rng, v)
        zones["chunks"] = g.chunks_for(crng, (H, W), MB)
        values["chunks"] = g.chunks_for(crng, (H, W), MB) if crng.random() < 0.7 else [list(c) for c in zones["chunks"]]
        if many:
            n = min(MB, H * W)
            zones["chunks"] = _exact_blocks(crng, H, W, n)
            values["chunks"] = [list(c) for c in zones["chunks"]]
            params["stats_funcs"] = rng.sample(ALL_STATS, rng.randint(1, 2))
        real_op = "zonal_stats"
    elif op == "zonal_crosstab":
        vdt = rng.choice(["i4", "i8", "f4", "f8"])
        v = _values(rng, (H, W), vdt, cats=True)
        values = {"data": v, "dims": ["y", "x"], "coords": {"y": y.copy(), "x": x.copy()},
                  "attrs": dict(attrs), "name": "values", "chunks": None}
        params["agg"] = rng.choice(["count", "percentage"])
        params["nodata_values"] = _nodata(rng, v)
        fin = v[np.isfinite(v)]
        if params["nodata_values"] is not None:
            fin = fin[fin != params["nodata_values"]]
        cats = sorted(set(fin.ravel().tolist()))
        params["cat_ids"] = _ids(rng, cats, [0, 1, 2, 3, 4, 5, 9, 12])
        zones["chunks"] = g.chunks_for(crng, (H, W), MB)
        values["chunks"] = g.chunks_for(crng, (H, W), MB) if crng.random() < 0.7 else [list(c) for c in zones["chunks"]]
        real_op = "zonal_crosstab"
    else:  # 3-D count
        L = rng.randint(1, 4)
        vdt = rng.choice(["i4", "f4", "f8"])
        layer_pos = rng.choice([0, 0, 2])
        v = _values(rng, (L, H, W), vdt)
        labels = rng.choice([list(range(L)), [10 * (k + 1) for k in range(L)]])
        if layer_pos == 0:
            dims = ["layer", "y", "x"]
        else:
            v = np.moveaxis(v, 0, 2).copy()
            dims = ["y", "x", "layer"]
        values = {"data": v, "dims": dims,
                  "coords": {"y": y.copy(), "x": x.copy(), "layer": np.array(labels)},
                  "attrs": dict(attrs), "name": "values", "chunks": None}
        params["agg"] = "count"
        params["layer"] = layer_pos if rng.random() < 0.8 or layer_pos else None
        params["nodata_values"] = _nodata(rng, v)
        params["cat_ids"] = _ids(rng, labels, labels)
        zones["chunks"] = g.chunks_for(crng, (H, W), MB)
        values["chunks"] = g.chunks_for(crng, v.shape, MB)
        real_op = "zonal_crosstab"
    from .gen_c01 import gen_dask_config
    case = {"op": real_op, "variant": op, "params": params, "rasters": [zones, values],
            "dask_config": gen_dask_config(st["config"])}
    frng = st["followup"]
    if frng.random() < 0.35:
        # the user calls again on the same Dask rasters: other parameters, or another values raster
        p2 = copy.deepcopy(params)
        r2 = [None, None]
        mode = frng.choice(["nodata", "ids", "stats", "values"])
        v_now = values["data"]
        if mode == "nodata":
            p2["nodata_values"] = None if params.get("nodata_values") is not None else _nodata(frng, v_now)
        elif mode == "ids":
            p2["zone_ids"] = _ids(frng, present, universe)
        elif mode == "stats" and real_op == "zonal_stats":
            p2["stats_funcs"] = frng.sample(ALL_STATS, frng.randint(1, 7))
        else:
            v2 = copy.deepcopy(values)
            nprs = np.random.RandomState(frng.getrandbits(32))
            d = np.asarray(v2["data"])
            perm = nprs.permutation(d.size)
            v2["data"] = d.ravel()[perm].reshape(d.shape).copy()
            r2 = [None, v2]
        case["followup"] = {"params": p2, "rasters": r2}
    return case


def followups(case, st):
    """After monitor M2 saw the caller's buffer written: the same call again on the same objects
    with the parameters that would expose a changed input (nodata dropped/added, other stats)."""
    rng = st["followup-m2"]
    out = []
    params = case["params"]
    v = case["rasters"][1]["data"]
    for mode in ("nodata_off", "nodata_other", "same"):
        p2 = copy.deepcopy(params)
        if mode == "nodata_off":
            if params.get("nodata_values") is None:
                continue
            p2["nodata_values"] = None
        elif mode == "nodata_other":
            p2["nodata_values"] = _nodata(rng, v)
        c = {k: x for k, x in case.items() if k != "followup"}
        c["followup"] = {"params": p2, "rasters": [None, None]}
        out.append(c)
    return out


def _exact_blocks(rng, H, W, n):
    """A chunking of an H x W raster with exactly a x b = n' blocks, n' as close to n as the shape allows."""
    best = (1, 1)
    for a in range(1, H + 1):
        b = min(W, n // a)
        if b >= 1 and a * b > best[0] * best[1] and a * b <= n:
            best = (a, b)
    out = []
    for size, parts in ((H, best[0]), (W, best[1])):
        cuts = sorted(rng.sample(range(1, size), parts - 1)) if parts > 1 else []
        edges = [0] + cuts + [size]
        out.append([edges[k + 1] - edges[k] for k in range(parts)])
    return out


def _nodata(rng, v):
    r = rng.random()
    if r < 0.5:
        return None
    fin = v[np.isfinite(v)]
    if r < 0.85 and fin.size:
        x = fin.ravel()[rng.randrange(fin.size)]
        return float(x) if v.dtype.kind == "f" else int(x)
    return -9999


def reach(case):
    zc, vc = case["rasters"][0]["chunks"], case["rasters"][1]["chunks"]
    z = case["rasters"][0]["data"]
    r = {"multi_block": any(len(a) > 1 for a in zc),
         "chunked_differently": [list(a) for a in zc] != [list(a) for a in vc[-2:]] if len(vc) == 2 else True,
         "variant_" + case.get("variant", case["op"]): True,
         "zone_ids_given": case["params"].get("zone_ids") is not None,
         "nodata_given": case["params"].get("nodata_values") is not None,
         "nan_zones": bool(z.dtype.kind == "f" and np.isnan(z).any()),
         "followup_on_same_objects": bool(case.get("followup"))}
    # a zone absent from some block of the zones chunking
    ys = np.cumsum([0] + list(zc[0]))
    xs = np.cumsum([0] + list(zc[1]))
    allz = set(z[np.isfinite(z)].ravel().tolist())
    absent = False
    for a in range(len(ys) - 1):
        for b in range(len(xs) - 1):
            blk = z[ys[a]:ys[a + 1], xs[b]:xs[b + 1]]
            if set(blk[np.isfinite(blk)].ravel().tolist()) != allz:
                absent = True
    r["zone_absent_from_some_block"] = absent
    v = case["rasters"][1]["data"]
    if case["op"] == "zonal_stats" and v.dtype.kind == "f":
        ok = np.isfinite(v)
        nd = case["params"].get("nodata_values")
        if nd is not None:
            ok &= v != nd
        r["zone_without_valid_cell"] = any(not ok[z == zz].any() for zz in allz)
    return r


# ----------------------------------------------------------------- oracle

def _zone_moments(case):
    z = np.asarray(case["rasters"][0]["data"])
    v = np.asarray(case["rasters"][1]["data"])
    nd = case["params"].get("nodata_values")
    out = {}
    for zz in np.unique(z[np.isfinite(z)]):
        vals = v[z == zz].astype(np.float64)
        ok = np.isfinite(vals)
        if nd is not None:
            ok &= vals != nd
        vals = vals[ok]
        n = len(vals)
        out[float(zz)] = {"n": n, "s1": float(np.abs(vals).sum()) if n else 0.0,
                          "s2": float((vals ** 2).sum()) if n else 0.0,
                          "var": float(vals.var()) if n else float("nan")}
    return out


def _cell(v):
    v = float(v)
    if np.isnan(v):
        return "nan"
    if np.isinf(v):
        return "inf" if v > 0 else "-inf"
    return v


def compare(case, got, want):
    if not isinstance(got, pd.DataFrame):
        return {"class": "not_a_table", "type": type(got).__name__}
    got = got.reset_index(drop=True)
    want = want.reset_index(drop=True)
    gc = [_colname(c) for c in got.columns]
    wc = [_colname(c) for c in want.columns]
    if gc != wc:
        return {"class": "columns_mismatch", "got": gc, "want": wc}
    if len(got) != len(want):
        return {"class": "rows_mismatch", "got": len(got), "want": len(want),
                "got_zones": [_cell(v) for v in got.iloc[:, 0].tolist()][:20],
                "want_zones": [_cell(v) for v in want.iloc[:, 0].tolist()][:20]}
    gz = got.iloc[:, 0].to_numpy(dtype=float)
    wz = want.iloc[:, 0].to_numpy(dtype=float)
    if not np.array_equal(gz, wz, equal_nan=True):
        return {"class": "zone_column_mismatch", "got": [_cell(v) for v in gz][:20], "want": [_cell(v) for v in wz][:20]}
    if case["op"] == "zonal_crosstab":
        tol = 1e-12 if case["params"].get("agg") == "percentage" else 0.0
        for ci in range(1, len(gc)):
            g_ = got.iloc[:, ci].to_numpy(dtype=float)
            w_ = want.iloc[:, ci].to_numpy(dtype=float)
            ok = (np.isnan(g_) & np.isnan(w_)) | (np.abs(g_ - w_) <= tol * np.maximum(1.0, np.abs(w_)))
            if not ok.all():
                r = int(np.argmin(ok))
                return {"class": "value_mismatch", "column": gc[ci], "row": r, "zone": _cell(gz[r]),
                        "got": _cell(g_[r]), "want": _cell(w_[r]), "n_diff": int((~ok).sum())}
        return None
    mom = _zone_moments(case)
    vdt = np.asarray(case["rasters"][1]["data"]).dtype
    eps = float(np.finfo(vdt).eps) if vdt.kind == "f" else float(np.finfo(np.float64).eps)
    for ci in range(1, len(gc)):
        col = gc[ci]
        g_ = got.iloc[:, ci].to_numpy(dtype=float)
        w_ = want.iloc[:, ci].to_numpy(dtype=float)
        for r in range(len(g_)):
            a, b = g_[r], w_[r]
            m = mom.get(float(gz[r]), {"n": 0, "s1": 0.0, "s2": 0.0, "var": float("nan")})
            n = max(m["n"], 1)
            if np.isnan(a) and np.isnan(b):
                continue
            if col in ("count", "min", "max"):
                ok = a == b
            elif col == "sum":
                ok = abs(a - b) <= max(1e-9, 16 * eps) * max(m["s1"], 1e-300)
            elif col == "mean":
                ok = abs(a - b) <= max(1e-9, 16 * eps) * max(m["s1"] / n, 1e-300)
            else:
                bound = max(1e-9, 64 * eps) * max(1.0, m["s2"] / n)
                if col == "var":
                    ok = abs(a - b) <= bound
                else:  # std: compare through the square; NaN allowed only for rounding-negative variance
                    if np.isnan(a) and not np.isnan(b):
                        ok = b * b <= bound
                    elif np.isnan(b):
                        ok = False
                    else:
                        ok = abs(a * a - b * b) <= 2 * bound
            if not ok:
                return {"class": "value_mismatch", "column": col, "row": r, "zone": _cell(gz[r]),
                        "got": _cell(a), "want": _cell(b), "valid_cells_in_zone": m["n"]}
    return None


def _colname(c):
    if isinstance(c, (float, np.floating)):
        return float(c)
    if isinstance(c, (int, np.integer)):
        return int(c)
    return str(c)


def signature(case, violation):
    sig = {"op": case["op"], "variant": case.get("variant"), "class": violation.get("class")}
    if "column" in violation:
        sig["column"] = violation["column"]
    if violation.get("class") == "value_mismatch" and "valid_cells_in_zone" in violation:
        sig["empty_zone"] = violation["valid_cells_in_zone"] == 0
    exc = violation.get("exc")
    if exc:
        sig["exc_type"] = exc.get("type")
        sig["exc_where"] = exc.get("where")
    return sig

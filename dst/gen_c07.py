"""C07: proximity / allocation / direction on Dask == NumPy for every chunking."""
import copy
import math

import numpy as np

from . import gen_common as g
from . import oracles

OPS = ["proximity", "allocation", "direction"]


def func_of(i):
    return OPS[i % 3]


def owner(i, nworkers):
    return i % nworkers


def _dist(metric, x1, x2, y1, y2):
    if metric == "MANHATTAN":
        return abs(x1 - x2) + abs(y1 - y2)
    if metric == "GREAT_CIRCLE":
        lat1, lon1, lat2, lon2 = map(math.radians, (y1, x1, y2, x2))
        a = math.sin((lat2 - lat1) / 2) ** 2 + math.cos(lat1) * math.cos(lat2) * math.sin((lon2 - lon1) / 2) ** 2
        return 6378137 * 2 * math.asin(math.sqrt(a))
    return math.hypot(x1 - x2, y1 - y2)


def halo(case):
    """(pad_y, pad_x, single_block) exactly as the documented rule."""
    r = case["rasters"][0]
    p = case["params"]
    md = p.get("max_distance")
    x = np.asarray(r["coords"]["x"], dtype=float)
    y = np.asarray(r["coords"]["y"], dtype=float)
    metric = p.get("distance_metric") or "EUCLIDEAN"
    corner = float(np.float32(_dist(metric, x[0], x[-1], y[0], y[-1])))
    if md is None or md >= corner:
        return 0, 0, True
    res = r["attrs"].get("res")
    H, W = r["data"].shape
    if isinstance(res, (tuple, list)):
        cx, cy = res
    elif isinstance(res, (int, float)):
        cx = cy = res
    else:
        cx = (x.max() - x.min()) / (W - 1) if W > 1 else float("nan")
        cy = (y.max() - y.min()) / (H - 1) if H > 1 else float("nan")
    try:
        return int(md / cy + 0.5), int(md / cx + 0.5), False
    except (ValueError, ZeroDivisionError, OverflowError):
        return None, None, False


def in_domain(case):
    py, px, single = halo(case)
    if single:
        return True
    if py is None:
        return False
    H, W = case["rasters"][0]["data"].shape
    return 0 <= py <= H and 0 <= px <= W


def gen_case(st, i, tier="quick", op=None):
    rng = st["case"]
    op = op or func_of(i)
    hi = 14 if tier == "quick" else 25
    for attempt in range(50):
        H, W = rng.randint(3, hi), rng.randint(3, hi)
        metric = rng.choice(["EUCLIDEAN", "EUCLIDEAN", "MANHATTAN", "GREAT_CIRCLE", None])
        lonlat = metric == "GREAT_CIRCLE"
        if lonlat:
            cx, cy = rng.choice([0.5, 1.0, 2.0]), rng.choice([0.5, 1.0, 2.0])
            x0, y0 = rng.choice([-60.0, 0.0, 10.0]), rng.choice([-20.0, 0.0, 5.0])
            if rng.random() < 0.3:
                # a raster spanning most of the globe: the two far corners are not its largest distance
                cx = 340.0 / max(W - 1, 1)
                x0 = -170.0
                cy = min(cy, 120.0 / max(H - 1, 1))
                y0 = rng.choice([-60.0, -30.0, 0.0])
        else:
            cx = rng.choice([0.5, 1.0, 2.0, 3.0, 0.1, 0.3, 0.7])
            cy = rng.choice([0.5, 1.0, 2.0, 3.0, 0.1, 0.3, 0.7])
            # index-like, small, and projected (UTM-like: large relative to the cell size) origins
            x0 = rng.choice([0.0, 100.0, -7.5, 500000.0, 0.0])
            y0 = rng.choice([0.0, 50.0, -3.0, 4649776.0, 0.0])
            if rng.random() < 0.25:
                x0 = y0 = 0.0            # index-like coordinates (arange * cellsize) are what most examples use
        exact = (not lonlat) and rng.random() < 0.25
        if exact:
            # "exactly at the halo": decimal cell sizes from a 0.05 grid and max_distance = k cells typed
            # as a decimal, so that max_distance/cellsize lands a rounding error below or above k
            cx = round(rng.randint(1, 60) * 0.05, 10)
            cy = cx if rng.random() < 0.5 else round(rng.randint(1, 60) * 0.05, 10)
        x = x0 + cx * np.arange(W)
        y = y0 + cy * np.arange(H)
        if rng.random() < 0.5:
            y = y[::-1].copy()
        attrs = {}
        mode = rng.choice(["res_tuple", "coords", "coords", "res_scalar"])
        if mode == "res_tuple":
            attrs["res"] = (float(cx), float(cy))
        elif mode == "res_scalar" and cx == cy:
            attrs["res"] = float(cx)
        dtype = rng.choice(["i4", "i8", "f4", "f8", "u1"])
        dens = rng.choice([0.02, 0.05, 0.15, 0.3, 0.3, 0.7, 0.95])     # at 0.7 / 0.95 the value 0 is the rare one
        nprs = np.random.RandomState(rng.getrandbits(32))
        data = np.where(nprs.rand(H, W) < dens, nprs.randint(1, 4, (H, W)), 0)
        if np.dtype(dtype).kind in "if" and rng.random() < 0.3:
            # negative cells are targets too (anything non-zero and finite is)
            data = np.where(nprs.rand(H, W) < 0.5, -data, data)
        data = data.astype(dtype)
        if data.dtype.kind == "f" and rng.random() < 0.3:
            data[nprs.rand(H, W) < 0.1] = np.nan
        params = {"distance_metric": metric}
        if rng.random() < 0.35:
            params["target_values"] = rng.choice([[1], [2, 3], [1, 2, 3], [3], [0], [0], [0, 1], [0, 2], [-1, -2]])
        r = rng.random()
        if r < 0.12:
            params["max_distance"] = None
        elif r < 0.2:
            params["max_distance"] = float("inf")
        else:
            mult = rng.choice([0.5, 1, 1.5, 2, 2.5, 3, 4, 5, 6, 7, 8, 9])
            unit = rng.choice([cx, cy, 1.0])
            # the decimal a user would type (0.7, not 7*0.1 = 0.7000000000000001): max_distance/cellsize
            # then falls just below or above an integer number of cells
            md = round(mult * unit, 10) if rng.random() < 0.7 else mult * unit
            if exact:
                kk = rng.choice([1, 2, 3, 4, 5, 6, 7, 8, 9])
                md = round(kk * rng.choice([cx, cy]), 10)
            if lonlat and rng.random() < 0.7:
                md = mult * unit * 111000.0 * rng.choice([1, 1, 30])
            params["max_distance"] = float(md)
        raster = {"data": data, "dims": ["y", "x"], "coords": {"y": y, "x": x}, "attrs": attrs,
                  "name": None, "chunks": None}
        raster["chunks"] = g.chunks_for(st["chunks"], (H, W))
        case = {"op": op, "params": params, "rasters": [raster], "dask_config": {}}
        if in_domain(case):
            break
    else:
        params["max_distance"] = None
    _place_edge_targets(rng, case)
    if rng.random() < 0.2:
        from .gen_c01 import gen_dask_config
        case["dask_config"] = gen_dask_config(st["config"])
    prng = st["pair"]
    if prng.random() < 0.2:
        # a second lazy result on the same Dask raster that differs in one parameter only; both are
        # computed by one dask.compute (graph keys of the two must not collide)
        p2 = copy.deepcopy(case["params"])
        which = prng.choice(["targets", "targets", "max_distance"])
        if which == "targets":
            cur = p2.get("target_values")
            p2["target_values"] = prng.choice([x for x in ([1], [2, 3], [3], [1, 2, 3], None) if x != cur])
        else:
            md = p2.get("max_distance")
            if md is not None and np.isfinite(md):
                p2["max_distance"] = md * prng.choice([0.5, 2.0])
        c2 = dict(case, params=p2)
        if in_domain(c2):
            case["pair"] = {"params": p2}
    return case


def _place_edge_targets(rng, case):
    """Targets exactly at / one inside / one outside the halo of a chunk edge."""
    py, px, single = halo(case)
    if single or py is None:
        return
    r = case["rasters"][0]
    data = r["data"]
    H, W = data.shape
    tv = case["params"].get("target_values")
    val = (tv[0] if tv else 1) or 1
    if data.dtype.kind == "u" and val < 0:
        val = 1
    ych, xch = r["chunks"]
    if len(xch) > 1 and rng.random() < 0.8:
        e = int(np.cumsum(xch)[rng.randrange(len(xch) - 1)])      # first column of the right chunk
        row = rng.randrange(H)
        off = rng.choice([px - 1, px, px + 1, -px, -px - 1])
        c = (e - 1) + off if off > 0 else e + off
        if 0 <= c < W:
            # clear the row so the placed target is the nearest one along it
            if rng.random() < 0.6:
                data[row, :] = 0
            data[row, c] = val
    if len(ych) > 1 and rng.random() < 0.8:
        e = int(np.cumsum(ych)[rng.randrange(len(ych) - 1)])
        col = rng.randrange(W)
        off = rng.choice([py - 1, py, py + 1, -py, -py - 1])
        rr = (e - 1) + off if off > 0 else e + off
        if 0 <= rr < H:
            if rng.random() < 0.6:
                data[:, col] = 0
            data[rr, col] = val


def variants(case, st):
    """(variant case, needs its own NumPy reference?).

    1. a second chunking of the same raster (shares the reference);
    2. a *different* raster of the same shape, dims and chunking - other georeferencing, other
       targets - right after the first one in the same process: anything the first call left
       behind that is keyed on shape/chunks only would leak into it."""
    c = copy.deepcopy(case)
    r = c["rasters"][0]
    r["chunks"] = g.chunks_for(st["chunks2"], r["data"].shape)
    out = [(c, False)]
    rng = st["variant-b"]
    if rng.random() < 0.5:
        b = copy.deepcopy(case)
        rb = b["rasters"][0]
        H, W = rb["data"].shape
        x = np.asarray(rb["coords"]["x"], dtype=float)
        y = np.asarray(rb["coords"]["y"], dtype=float)
        fx, fy = rng.choice([0.5, 2.0, 3.0]), rng.choice([0.5, 2.0, 3.0])
        rb["coords"]["x"] = x[0] + (x - x[0]) * fx + rng.choice([0.0, 10.0])
        rb["coords"]["y"] = y[0] + (y - y[0]) * fy
        if "res" in rb["attrs"]:
            res = rb["attrs"]["res"]
            rb["attrs"]["res"] = (res[0] * fx, res[1] * fy) if isinstance(res, tuple) else None
            if rb["attrs"]["res"] is None:
                del rb["attrs"]["res"]
        rb["data"] = np.roll(rb["data"], (1, 2), axis=(0, 1)).copy()
        if b.get("pair") and not in_domain(dict(b, params=b["pair"]["params"])):
            del b["pair"]
        if in_domain(b):
            out.append((b, True))
    return out


def valid(case):
    """The property's stated domain (used by the minimiser: a shrunk case must stay inside it)."""
    if not in_domain(case):
        return False
    if case.get("pair") and not in_domain(dict(case, params=case["pair"]["params"])):
        return False
    return True


def compare(case, got, want):
    return oracles.exact(got, want)


def reach(case):
    py, px, single = halo(case)
    r = case["rasters"][0]
    ch = r["chunks"]
    out = {"multi_block": any(len(a) > 1 for a in ch), "single_block_branch": bool(single),
           "finite_max_distance": not single,
           "metric_" + str(case["params"].get("distance_metric")): True,
           "op_" + case["op"]: True,
           "explicit_targets": case["params"].get("target_values") is not None,
           "res_from_coords": "res" not in r["attrs"], "pair_in_one_compute": bool(case.get("pair"))}
    if not single and py is not None:
        out["chunk_smaller_than_halo"] = (py > 0 and min(ch[0]) < py) or (px > 0 and min(ch[1]) < px)
        out["halo_ge_1"] = py >= 1 or px >= 1
        x = np.asarray(r["coords"]["x"])
        y = np.asarray(r["coords"]["y"])
        out["non_square_cells"] = abs(abs(x[1] - x[0]) - abs(y[1] - y[0])) > 1e-12 if len(x) > 1 and len(y) > 1 else False
        out["descending_y"] = len(y) > 1 and y[0] > y[-1]
    return out

"""C01 case generator: every Dask-accepting raster op x input x chunking x config."""
import numpy as np

from . import gen_common as g

WEIGHTS = [
    ("slope", 2), ("aspect", 2), ("curvature", 2), ("hillshade", 2), ("summarize_terrain", 1),
    ("focal_mean", 2), ("focal_apply", 4), ("focal_stats", 1), ("hotspots", 3),
    ("convolution_2d", 3), ("binary", 1), ("reclassify", 1), ("equal_interval", 1),
    ("arvi", 1), ("evi", 1), ("gci", 1), ("nbr", 1), ("nbr2", 1), ("ndvi", 1), ("ndmi", 1),
    ("savi", 1), ("sipi", 1), ("ebbi", 1), ("true_color", 3), ("perlin", 2),
    ("generate_terrain", 1),
]
FUNCS = [n for n, _ in WEIGHTS]
WHEEL = [n for n, w in WEIGHTS for _ in range(w)]
PAIRABLE = ("hillshade", "focal_mean", "focal_apply", "focal_stats", "hotspots", "convolution_2d", "binary",
            "reclassify", "equal_interval", "evi", "savi", "true_color", "perlin", "generate_terrain", "slope")
NBANDS = {"arvi": 3, "evi": 3, "gci": 2, "nbr": 2, "nbr2": 2, "ndvi": 2, "ndmi": 2, "savi": 2,
          "sipi": 3, "ebbi": 3, "true_color": 3}


def func_of(i):
    return WHEEL[i % len(WHEEL)]


def owner(i, nworkers):
    return FUNCS.index(func_of(i)) % nworkers


def shard(case):
    """Work is sharded by Numba specialisation class (op, dtype of the first raster, reducer) so
    that each specialisation is compiled in exactly one worker while every op is spread over
    several workers (JIT, not execution, dominates the cost of a run)."""
    return "%s|%s|%s" % (case["op"], case["rasters"][0]["data"].dtype, case["params"].get("func", ""))


OP_COST = {"generate_terrain": 14.0, "perlin": 4.0, "focal_stats": 4.0, "focal_apply": 2.5, "hotspots": 2.5,
           "convolution_2d": 2.0, "true_color": 2.5, "summarize_terrain": 2.0, "focal_mean": 1.5, "hillshade": 1.2}
_ASSIGN = {}


def assignment(nworkers, tier):
    """shard -> worker, longest-processing-time first, so that every worker advances through the run
    indices at a similar pace (a worker that owns the slow shards would otherwise starve the cheap
    shards it also owns).  Computed identically in every worker."""
    key = (nworkers, tier)
    if key in _ASSIGN:
        return _ASSIGN[key]
    dts = ["uint8", "int32", "int64", "float32", "float64"] if tier == "quick" else \
        [str(np.dtype(d)) for d in g.ALL_DTYPES]
    weights = dict(WEIGHTS)
    shards = []
    for op in FUNCS:
        op_dts = ["float32", "float64"] if op in ("perlin", "generate_terrain") else dts
        funcs = [""]
        if op == "focal_apply":
            funcs = ["mean", "sum", "max", "std", "user_posweight"] if tier == "quick" else \
                ["mean", "sum", "min", "max", "std", "range", "var", "user_posweight", "user_count"]
        for dt in op_dts:
            for f in funcs:
                cost = OP_COST.get(op, 1.0) * weights[op] / (len(op_dts) * len(funcs))
                shards.append((cost, "%s|%s|%s" % (op, dt, f)))
    loads = [0.0] * nworkers
    out = {}
    for cost, name in sorted(shards, key=lambda x: (-x[0], x[1])):
        w = min(range(nworkers), key=lambda k: (loads[k], k))
        out[name] = w
        loads[w] += cost
    _ASSIGN[key] = out
    return out


def gen_dask_config(rng):
    cfg = {}
    r = rng.random()
    if r < 0.35:
        cfg["array.chunk-size"] = rng.choice(["64 B", "200 B", "1 KiB"])
    if rng.random() < 0.25:
        cfg["optimization.fuse.active"] = False
    return cfg


def draw_params(op, rng, H, W, tier="quick"):
    """Parameters of one call of `op` on an H x W raster (kernel half-size <= raster size)."""
    params = {}
    if op == "hillshade":
        params = {"azimuth": rng.choice([225, 0, 90, 315, 47.5]),
                  "angle_altitude": rng.choice([25, 0, 45, 90, 12.5])}
    elif op == "focal_mean":
        params = {"passes": rng.choice([0, 1, 1, 2, 3])}
        r = rng.random()
        if r < 0.3:
            params["excludes"] = [float("nan"), float(rng.choice([0, 1, 2, 10]))]
        elif r < 0.45:
            params["excludes"] = [float(rng.choice([0, 1, 3]))]
    elif op == "focal_apply":
        params = {"kernel": g.kernel_mask(rng, H, W),
                  "func": rng.choice(["mean", "sum", "max", "std", "user_posweight", "user_posweight"]
                                     if tier == "quick" else
                                     ["mean", "sum", "min", "max", "std", "range", "var",
                                      "user_posweight", "user_posweight", "user_count"])}
    elif op == "focal_stats":
        allst = ["mean", "max", "min", "range", "std", "var", "sum"]
        params = {"kernel": g.kernel_mask(rng, H, W)}
        if rng.random() < 0.7:
            k = rng.randint(1, 3)
            params["stats_funcs"] = rng.sample(allst, k)
    elif op == "hotspots":
        params = {"kernel": g.kernel_mask(rng, H, W)}
    elif op == "convolution_2d":
        params = {"kernel": g.kernel_weights(rng, H, W)}
    elif op == "binary":
        params = {"values": [float(v) for v in rng.sample([0, 1, 2, 3, 4, 10, 20, 30, 255, 0.1, 0.5, 2.5, 0.7,
                                                           1 / 3.0, 16777217.0], rng.randint(1, 4))]}
    elif op == "reclassify":
        n = rng.randint(1, 8)
        bins = sorted(rng.sample([0, 1, 2, 3, 5, 8, 10, 16, 20, 32, 50, 64, 100, 1e6, 2e7], n))
        params = {"bins": [float(b) for b in bins], "new_values": [float(rng.randint(0, 9)) for _ in bins]}
    elif op == "equal_interval":
        params = {"k": rng.choice([1, 2, 3, 5, 7])}
    elif op == "evi":
        if rng.random() < 0.6:
            params = {"c1": rng.choice([6.0, 1.0, 2.5]), "c2": rng.choice([7.5, 0.5, 3.0]),
                      "soil_factor": rng.choice([1.0, 0.0, 0.5]), "gain": rng.choice([2.5, 1.0, 10.0])}
    elif op == "savi":
        if rng.random() < 0.7:
            params = {"soil_factor": rng.choice([1.0, 0.0, 0.5, -1.0, 0.25])}
    elif op == "true_color":
        if rng.random() < 0.7:
            params = {"nodata": rng.choice([1, 0, 10, 50]), "c": rng.choice([10.0, 1.0, 25.0]),
                      "th": rng.choice([0.125, 0.5, 0.0])}
    elif op == "perlin":
        params = {"freq": (rng.choice([1, 2, 0.5, 5]), rng.choice([1, 3, 0.25])),
                  "seed": rng.choice([5, 0, 1, 12345])}
    elif op == "generate_terrain":
        params = {"seed": rng.choice([10, 0, 3]), "zfactor": rng.choice([4000, 1, 100])}
        if rng.random() < 0.5:
            params["x_range"] = (0, rng.choice([500, 10, 37]))
            params["y_range"] = (rng.choice([0, -5]), rng.choice([500, 20]))
        if rng.random() < 0.3:
            params["full_extent"] = (-100, -100, 1000, 1000)
    return params


def gen_case(st, i, tier="quick", op=None, max_dim=None):
    """st: util.Streams for this run."""
    rng = st["case"]
    op = op or func_of(i)
    hi = max_dim or (12 if tier == "quick" else 24)
    if op == "generate_terrain":
        hi = min(hi, 10)
    H = rng.randint(1, hi)
    W = rng.randint(1, hi)
    if rng.random() < 0.15:
        H = rng.choice([1, 2, 3])
    if rng.random() < 0.15:
        W = rng.choice([1, 2, 3])
    sweep = tier == "thorough" and rng.random() < 0.25
    if sweep:
        H, W = rng.randint(2, 5), rng.randint(2, 5)
    # every distinct (op, dtype, reducer) is one Numba compilation (~0.5 s): the quick tier keeps the
    # dtype alphabet small (unsigned, signed, both floats), the thorough tier uses all eight
    if tier == "quick":
        dtype = rng.choice(["u1", "i4", "i8", "f4", "f8", "f4", "f8"])
    else:
        dtype = rng.choice(g.ALL_DTYPES + ["f4", "f8", "f4", "f8"])
    band_dtypes = ["u1", "i4", "f4", "f8"] if tier == "quick" else g.ALL_DTYPES
    params = {}
    nb = NBANDS.get(op, 1)
    geo = g.georef(rng, H, W)
    name = "elev" if op == "summarize_terrain" else None

    if op == "hotspots":
        # keep the standardisation well conditioned (DESIGN C01 oracle)
        style = rng.choice(["smooth", "ints", "neg", "patches", "pow2", "steps"])
        rasters = [g.raster(rng, H, W, dtype, style=style, geo=geo, inf_p=0.0)]
    elif op in ("perlin", "generate_terrain"):
        dtype = rng.choice(["f4", "f8"])
        rasters = [g.raster(rng, H, W, dtype, style="smooth", geo=geo, nan_p=0.0, inf_p=0.0)]
    else:
        rasters = [g.raster(rng, H, W, dtype if b == 0 or rng.random() < 0.6 else rng.choice(band_dtypes),
                            geo=geo, name=name) for b in range(nb)]

    params = draw_params(op, rng, H, W, tier)

    if op in ("equal_interval", "reclassify") and rasters[0]["data"].dtype.kind == "f" and rng.random() < 0.5:
        # boundary values: cells that sit exactly on the class edges, computed in the raster's own
        # precision the way the NumPy path computes them (min + j * (max - min) / k)
        d = rasters[0]["data"]
        dt = d.dtype.type
        lo, hi = dt(rng.choice([0.1, 0.3, 1.7, -2.3, 10.1])), dt(rng.choice([2.7, 3.3, 7.9, 12.6, 100.3]))
        k = params.get("k") or max(len(params.get("bins", [])), 2)
        width = (hi - lo) * 1.0 / k
        edges = np.concatenate([[lo], np.arange(lo + width, hi + width, width)[:k], [hi]]).astype(d.dtype)
        if op == "reclassify":
            params["bins"] = [float(v) for v in sorted(set(edges[1:].tolist()))]
            params["new_values"] = [float(j) for j in range(len(params["bins"]))]
        nprs = np.random.RandomState(rng.getrandbits(32))
        vals = edges[nprs.randint(0, len(edges), d.shape)]
        keep = ~np.isfinite(d) & (nprs.rand(*d.shape) < 0.5)
        d[...] = np.where(keep, d, vals)
        d.flat[0], d.flat[-1] = lo, hi

    crng = st["chunks"]
    for r in rasters:
        r["chunks"] = g.chunks_for(crng, r["data"].shape)
    if sweep:
        # systematic sweep of the chunking axis on small rasters: the k-th sweep case of an
        # op takes the k-th pair of compositions (a sweep of one axis inside the seeded search)
        k = i // len(WHEEL)
        ch = g.all_compositions(H)
        cw = g.all_compositions(W)
        for r in rasters:
            r["chunks"] = [list(ch[k % len(ch)]), list(cw[(k // len(ch)) % len(cw)])]
    case = {"op": op, "params": params, "rasters": rasters,
            "dask_config": gen_dask_config(st["config"])}
    if sweep:
        case["sweep"] = True
    prng = st["pair"]
    if op in PAIRABLE and prng.random() < (0.6 if op in ("perlin", "generate_terrain") else 0.25):
        # a second call of the same op on the same Dask rasters with its own parameters; both lazy
        # results are then computed by ONE dask.compute (one merged graph, one schedule)
        case["pair"] = {"params": draw_params(op, prng, H, W, tier)}
    if op in ("perlin", "generate_terrain") and st["config"].random() < 0.6:
        case["dask_config"]["array.chunk-size"] = st["config"].choice(["64 B", "64 B", "200 B"])
    return case


def valid(case):
    """Stated domain: a kernel's half-size must not exceed the raster (a Dask limitation the
    property excludes); used by the minimiser so that a shrunk case stays inside it."""
    H, W = case["rasters"][0]["data"].shape[-2:]
    for p in (case["params"], (case.get("pair") or {}).get("params") or {}):
        k = p.get("kernel")
        if k is not None:
            k = np.asarray(k)
            if k.shape[0] // 2 > H or k.shape[1] // 2 > W:
                return False
    return H >= 1 and W >= 1


def reach(case):
    """Reach counters for one case (DESIGN 2.6)."""
    r = {}
    chs = [x["chunks"] for x in case["rasters"]]
    r["multi_block"] = any(len(ax) > 1 for ch in chs for ax in ch)
    r["one_cell_chunks"] = any(all(c == 1 for c in ax) and len(ax) > 1 for ch in chs for ax in ch)
    k = case["params"].get("kernel")
    if k is not None:
        k = np.asarray(k)
        r["non_square_kernel"] = k.shape[0] != k.shape[1]
        hr, hc = k.shape[0] // 2, k.shape[1] // 2
        r["chunk_smaller_than_halo"] = any(
            (hr and min(ch[0]) < hr and len(ch[0]) > 1) or (hc and min(ch[1]) < hc and len(ch[1]) > 1)
            for ch in chs)
    if len(chs) > 1:
        r["bands_chunked_differently"] = any(ch != chs[0] for ch in chs[1:])
    d = case["rasters"][0]["data"]
    if d.dtype.kind == "f":
        r["has_nan"] = bool(np.isnan(d).any())
        r["has_inf"] = bool(np.isinf(d).any())
    r["int_dtype"] = d.dtype.kind in "iu"
    r["chunk_size_knob"] = "array.chunk-size" in case.get("dask_config", {})
    r["chunk_sweep_case"] = bool(case.get("sweep"))
    r["pair_in_one_compute"] = bool(case.get("pair"))
    return r

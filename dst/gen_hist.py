"""Catalogues of concrete calls for the history engine (C10, C11).

A catalogue is plain data:
  {"pool": {rid: raster spec (+ "layout")}, "entries": [entry, ...]}
  entry = {"id", "family", "op", "params", "rasters": [rid, ...], "backend",
           "chunks": {rid: chunks} (dask), "private": bool, "identity": kind,
           "heavy": bool}

identity kinds (C10's documented exceptions, nothing else):
  "same"    raster in -> raster out: shape, dims, coords (scalar incl.), attrs, backend kept
  "hotspots" as "same" but attrs = input attrs + unit
  "viewshed" as "same", input dtype may widen (values equal)
  "window"  trim / crop: a contiguous window (view) of the input
  "inplace" zonal.apply: updates `values` in place by contract
  "own"     own shape / not a raster (generators, focal_stats, true_color, polygonize,
            local.*, tables): identity clause skipped, no-modification and no-aliasing kept
"""
import copy

import numpy as np

from . import gen_common as g

ALL10 = ["i1", "u1", "i2", "u2", "i4", "u4", "i8", "u8", "f4", "f8"]
LAYOUTS = ["C", "F", "strided", "readonly"]

H0, W0 = 6, 7


def _attrs(cx, cy, extra=None):
    a = {"res": (float(cx), float(cy)), "meta": {"tags": ["a", "b"], "n": 1}, "nodatavals": [-9999.0]}
    if extra:
        a.update(extra)
    return a


def _spec(data, cx=1.0, cy=1.0, x0=0.0, y0=0.0, desc=False, layout="C", name=None, attrs=None, res=True,
          linspace=False, lonlat2d=False):
    H, W = data.shape[-2:]
    x = x0 + cx * np.arange(W)
    y = y0 + cy * np.arange(H)
    if linspace:
        # the same grid up to float rounding, not bit for bit (another way of building coordinates)
        x = np.linspace(x0, x0 + cx * (W - 1) * (1 + 1e-15), W)
        y = np.linspace(y0, y0 + cy * (H - 1), H) + 0.0
        x[1:-1] = np.nextafter(x[1:-1], np.inf)
    if desc:
        y = y[::-1].copy()
    at = _attrs(cx, cy) if attrs is None else attrs
    if not res:
        at = {k: v for k, v in at.items() if k != "res"}
    spec = {"data": data, "dims": ["y", "x"], "coords": {"y": y, "x": x},
            "scalar_coords": {"spatial_ref": 0}, "attrs": at, "name": name, "layout": layout,
            "chunks": None}
    if lonlat2d:
        # non-index coordinates (2-D lon/lat): caller-owned arrays as well
        spec["coords2d"] = {"lon": np.add.outer(np.zeros(H), x) * 0.001 + 10.0,
                            "lat": np.add.outer(y, np.zeros(W)) * 0.001 + 50.0}
    return spec


def elev(rs, dtype, H=H0, W=W0):
    yy, xx = np.mgrid[0:H, 0:W]
    a = 40 + 10 * np.sin(xx / 2.0) + 7 * np.cos(yy / 1.5) + rs.uniform(0, 5, (H, W))
    dt = np.dtype(dtype)
    if dt.kind in "iu":
        a = np.round(a)
    return a.astype(dt)


def cats(rs, dtype, H=H0, W=W0, n=4):
    return rs.randint(0, n, (H, W)).astype(dtype)


def targets(rs, dtype, H=H0, W=W0, dens=0.15):
    return np.where(rs.rand(H, W) < dens, rs.randint(1, 4, (H, W)), 0).astype(dtype)


# finer partition used when a history picks what to interleave: entries that differ only in the
# parameters C11 names (and therefore must meet in one history) share a group
GROUPS = {"allocation": "proximity", "direction": "proximity",
          "zonal_stats_custom": "zonal_stats", "zonal_stats_xarray": "zonal_stats",
          "slope": "terrain3x3", "aspect": "terrain3x3", "curvature": "terrain3x3",
          "quantile": "classify_k", "natural_breaks": "classify_k", "equal_interval": "classify_k",
          "binary": "classify_bins", "reclassify": "classify_bins",
          "ndvi": "indices2", "gci": "indices2", "nbr": "indices2", "nbr2": "indices2", "ndmi": "indices2",
          "savi": "indices_scalar", "evi": "indices_scalar",
          "arvi": "indices3", "sipi": "indices3", "ebbi": "indices3",
          "trim": "window", "crop": "window", "regions": "regions",
          "hotspots": "convolution", "convolution_2d": "convolution",
          "perlin": "generators", "generate_terrain": "generators",
          "circle_kernel": "kernels", "annulus_kernel": "kernels", "calc_cellsize": "kernels"}
for _n in ("cell_stats", "combine", "lesser_frequency", "equal_frequency", "greater_frequency",
           "lowest_position", "highest_position", "popularity", "rank"):
    GROUPS["local_" + _n] = "local"


class Cat:
    def __init__(self):
        self.pool = {}
        self.entries = []

    def raster(self, rid, spec):
        if rid not in self.pool:
            self.pool[rid] = spec
        return rid

    def add(self, family, op, rasters, params=None, backend="numpy", chunks=None, identity="same",
            private=False, heavy=False, expect_error=None, always=False, group=None):
        e = {"id": len(self.entries), "family": family, "group": group or GROUPS.get(op, op), "op": op,
             "params": params or {},
             "rasters": list(rasters), "backend": backend, "chunks": chunks or {},
             "identity": identity, "private": private, "heavy": heavy}
        if expect_error:
            e["expect_error"] = expect_error
        if always:
            e["always"] = True      # survives the quick tier's thinning of JIT-heavy families
        self.entries.append(e)
        return e

    def data(self):
        return {"pool": self.pool, "entries": self.entries}


def _chunks(rng, shape):
    return g.chunks_for(rng, shape)


# --------------------------------------------------------------------------
# C11: parameter variation within families
# --------------------------------------------------------------------------

def catalogue_c11(seed, tier, rng):
    rs = np.random.RandomState(rng.getrandbits(32))
    c = Cat()
    K3 = np.ones((3, 3))
    K53 = np.array([[1, 0, 1], [1, 1, 1], [0, 1, 0], [1, 1, 1], [1, 0, 1]], dtype=float)
    K15 = np.ones((1, 5))
    KW = np.array([[0.5, -1.0, 2.0], [1.0, 0.25, 0.0], [3.0, 1.0, -0.5]])

    # ---- terrain family: dtype, int/float res scalars, backend
    e8 = c.raster("elev_f8", _spec(elev(rs, "f8"), 2.0, 3.0, desc=True))
    e4 = c.raster("elev_f4", _spec(elev(rs, "f4"), 2.0, 3.0))
    ei = c.raster("elev_i4", _spec(elev(rs, "i4"), 2.0, 3.0))
    eir = c.raster("elev_f8_intres", _spec(elev(rs, "f8"), 2, 3, attrs={"res": (2, 3)}))
    efr = c.raster("elev_f8_fltres", _spec(c.pool["elev_f8_intres"]["data"].copy(), 2.0, 3.0, attrs={"res": (2.0, 3.0)}))
    for op in ("slope", "aspect", "curvature"):
        for rid in (e8, e4, ei, eir, efr):
            c.add("terrain", op, [rid])
        c.add("terrain", op, [e8], backend="dask", chunks={e8: _chunks(rng, (H0, W0))})
        c.add("terrain", op, [ei], backend="dask", chunks={ei: _chunks(rng, (H0, W0))})
    for az, alt in ((225, 25), (90, 45), (315.0, 10.5)):
        c.add("terrain", "hillshade", [e8], {"azimuth": az, "angle_altitude": alt})
    c.add("terrain", "hillshade", [e4], {"azimuth": 225, "angle_altitude": 25})
    c.add("terrain", "hillshade", [e8], {"azimuth": 90, "angle_altitude": 45}, backend="dask",
          chunks={e8: _chunks(rng, (H0, W0))})
    en = c.raster("elev_named", _spec(elev(rs, "f8"), 1.0, 1.0, name="dem"))
    c.add("terrain", "summarize_terrain", [en], identity="own")

    # ---- focal family: kernel shape, reducer, mutable defaults
    for k, kn in ((K3, "3x3"), (K53, "5x3"), (K15, "1x5")):
        for fn in ("mean", "max", "user_posweight"):
            c.add("focal", "focal_apply", [e8], {"kernel": k, "func": fn})
        c.add("focal", "focal_apply", [ei], {"kernel": k, "func": "sum"})
        c.add("focal", "focal_apply", [e8], {"kernel": k, "func": "std"}, backend="dask",
              chunks={e8: _chunks(rng, (H0, W0))})
        c.add("focal", "hotspots", [e8], {"kernel": k}, identity="hotspots")
        c.add("focal", "convolution_2d", [e4], {"kernel": KW if k is K3 else k})
    c.add("focal", "hotspots", [e4], {"kernel": K3}, backend="dask", chunks={e4: _chunks(rng, (H0, W0))},
          identity="hotspots")
    c.add("focal", "focal_mean", [e8], {})                                   # default excludes=[nan]
    c.add("focal", "focal_mean", [e8], {"excludes": [float("nan"), 45.0]})
    c.add("focal", "focal_mean", [e8], {"passes": 3})
    c.add("focal", "focal_mean", [ei], {"excludes": [45.0]})
    c.add("focal", "focal_mean", [ei], {})                                   # default excludes, integer raster
    fz = c.raster("cats_f8_withzeros", _spec(cats(rs, "f8"), 2.0, 3.0))
    fzi = c.raster("cats_i4_withzeros", _spec(cats(rs, "i4"), 2.0, 3.0))
    c.add("focal", "focal_mean", [fz], {})
    c.add("focal", "focal_mean", [fzi], {})
    c.add("focal", "focal_mean", [fz], {"passes": 2})
    c.add("focal", "focal_mean", [e8], {"passes": 2}, backend="dask", chunks={e8: _chunks(rng, (H0, W0))})
    c.add("focal", "focal_mean", [e8], {"excludes": [float("nan"), 45.0]}, backend="dask",
          chunks={e8: _chunks(rng, (H0, W0))})
    c.add("focal", "focal_mean", [fz], {"excludes": [0.0]}, backend="dask", chunks={fz: _chunks(rng, (H0, W0))})
    c.add("focal", "focal_mean", [fz], {"excludes": [1.0, 2.0]}, backend="dask", chunks={fz: _chunks(rng, (H0, W0))})
    # kernel construction (results are caller-owned arrays: scribbling on one must not change the next)
    for rad in (2, 3, "4"):
        c.add("kernels", "circle_kernel", [], {"cellsize_x": 1, "cellsize_y": 1, "radius": rad}, identity="own")
    c.add("kernels", "circle_kernel", [], {"cellsize_x": 1.0, "cellsize_y": 2.0, "radius": 4}, identity="own")
    c.add("kernels", "annulus_kernel", [], {"cellsize_x": 1, "cellsize_y": 1, "outer_radius": 3, "inner_radius": 1},
          identity="own")
    c.add("kernels", "annulus_kernel", [], {"cellsize_x": 1, "cellsize_y": 1, "outer_radius": 4, "inner_radius": 2},
          identity="own")
    c.add("kernels", "calc_cellsize", [e8], {}, identity="own")
    c.add("kernels", "calc_cellsize", [eir], {}, identity="own")
    c.add("focal", "focal_stats", [e8], {"kernel": K3}, identity="own")     # default stats list
    c.add("focal", "focal_stats", [e8], {"kernel": K53, "stats_funcs": ["max", "sum"]}, identity="own")
    c.add("focal", "focal_stats", [e8], {"kernel": K53}, identity="own")     # default stats list, non-square kernel
    c.add("focal", "focal_stats", [ei], {"kernel": K15}, identity="own")
    c.add("focal", "focal_stats", [e4], {"kernel": K3, "stats_funcs": ["range"]}, identity="own")
    c.add("focal", "focal_apply", [e8], {"kernel": np.ones((2, 3))}, expect_error="ValueError")

    # ---- classify family: k, dtype
    for k in (2, 5):
        c.add("classify", "equal_interval", [e8], {"k": k})
        c.add("classify", "quantile", [e8], {"k": k})
        c.add("classify", "natural_breaks", [e8], {"k": k})
    c.add("classify", "natural_breaks", [e8], {"k": 3, "num_sample": 20})
    # num_sample varied both ways on rasters of one size (wave 4, c11d-1: a cached shuffle sorted in place by
    # the larger sample breaks only the *smaller* sample that follows)
    c.add("classify", "natural_breaks", [e8], {"k": 3, "num_sample": 33})
    c.add("classify", "natural_breaks", [e8], {"k": 3, "num_sample": 7})
    c.add("classify", "natural_breaks", [ei], {"k": 3, "num_sample": 20})
    c.add("classify", "natural_breaks", [ei], {"k": 3})
    c.add("classify", "equal_interval", [ei], {"k": 3})
    c.add("classify", "equal_interval", [e8], {"k": 5}, backend="dask", chunks={e8: _chunks(rng, (H0, W0))})
    c.add("classify", "binary", [ei], {"values": [40.0, 45.0, 50.0]})
    c.add("classify", "binary", [e8], {"values": [1.0]})
    c.add("classify", "reclassify", [e8], {"bins": [40.0, 50.0, 60.0], "new_values": [1.0, 2.0, 3.0]})
    c.add("classify", "reclassify", [ei], {"bins": [45.0, 55.0], "new_values": [7.0, 9.0]})
    c.add("classify", "reclassify", [e8], {"bins": [45.0, 55.0], "new_values": [7.0]}, expect_error="ValueError")

    # ---- multispectral family: dtype, scalar int vs float
    bands = {}
    for dt in ("u1", "u2", "f4", "f8"):
        for b in ("nir", "red", "blue"):
            bands[(b, dt)] = c.raster("%s_%s" % (b, dt), _spec(
                (rs.randint(1, 200, (H0, W0))).astype(dt) if dt[0] == "u" else rs.uniform(0.01, 1.0, (H0, W0)).astype(dt),
                10.0, 10.0))
    for dt in ("u1", "f4", "f8"):
        n, r, b = bands[("nir", dt)], bands[("red", dt)], bands[("blue", dt)]
        c.add("multispectral", "ndvi", [n, r])
        c.add("multispectral", "savi", [n, r], {"soil_factor": 1})
        c.add("multispectral", "savi", [n, r], {"soil_factor": 1.0})
        c.add("multispectral", "savi", [n, r], {"soil_factor": 0.5})
        c.add("multispectral", "evi", [n, r, b], {})
        c.add("multispectral", "evi", [n, r, b], {"c1": 6, "c2": 7, "soil_factor": 1, "gain": 2})
        c.add("multispectral", "arvi", [n, r, b])
        c.add("multispectral", "true_color", [n, r, b], {}, identity="own")
        c.add("multispectral", "true_color", [n, r, b], {"nodata": 0, "c": 25.0, "th": 0.5}, identity="own")
    n, r, b = bands[("nir", "u2")], bands[("red", "u2")], bands[("blue", "u2")]
    for op, nb in (("gci", 2), ("nbr", 2), ("nbr2", 2), ("ndmi", 2), ("sipi", 3), ("ebbi", 3)):
        c.add("multispectral", op, [n, r, b][:nb])
    n, r = bands[("nir", "f4")], bands[("red", "f8")]
    c.add("multispectral", "ndvi", [n, r], backend="dask",
          chunks={n: _chunks(rng, (H0, W0)), r: _chunks(rng, (H0, W0))})
    n, r, b = bands[("nir", "f4")], bands[("red", "f4")], bands[("blue", "f4")]
    c.add("multispectral", "true_color", [n, r, b], {}, backend="dask", identity="own",
          chunks={x: _chunks(rng, (H0, W0)) for x in (n, r, b)})

    # ---- proximity family: targets, max_distance, metric, mode, dtype, backend
    ti = c.raster("targets_i4", _spec(targets(rs, "i4", 8, 9), 1.0, 2.0))
    tf = c.raster("targets_f8", _spec(targets(rs, "f8", 8, 9), 1.0, 2.0))
    tl = c.raster("targets_lonlat", _spec(targets(rs, "i8", 6, 7), 1.0, 0.5, x0=-10.0, y0=-1.0, res=False))
    # the same number as Python int and as float, also at magnitudes where int64 and float64
    # arithmetic part ways (squares overflow int64 above ~3.04e9; floats lose integers above 2**53)
    big = [({"max_distance": 4000000000}, "md4e9int"), ({"max_distance": 4e9}, "md4e9"),
           ({"max_distance": 2 ** 53 + 1}, "md2p53int"), ({"max_distance": float(2 ** 53)}, "md2p53")]
    # same shape, dims and chunking as `ti`, other georeferencing and targets
    tb = c.raster("targets_i4_b", _spec(targets(rs, "i4", 8, 9), 3.0, 0.5, x0=100.0, y0=7.0, desc=True))
    for op in ("proximity", "allocation", "direction"):
        for rid in (ti, tb):
            c.add("proximity", op, [rid], {"max_distance": 4.0}, backend="dask", heavy=True,
                  chunks={rid: [[4, 4], [3, 3, 3]]}, always=(op == "proximity"))
    # two pending results that differ in target_values only (same raster, chunks, max_distance, mode)
    for op in ("proximity", "allocation"):
        for tv in ([1], [2, 3]):
            c.add("proximity", op, [ti], {"target_values": tv, "max_distance": 4.0}, backend="dask", heavy=True,
                  chunks={ti: [[4, 4], [3, 3, 3]]}, always=(op == "proximity"))
    pv = big + [({}, "default"), ({"target_values": [1]}, "t1"), ({"target_values": [2, 3]}, "t23"),
          ({"max_distance": 2.0}, "md2"), ({"max_distance": 5}, "md5int"), ({"max_distance": 5.0}, "md5"),
          ({"distance_metric": "MANHATTAN"}, "man"), ({"distance_metric": "MANHATTAN", "max_distance": 3.0, "target_values": [3]}, "man3")]
    for op in ("proximity", "allocation", "direction"):
        for p, tag in pv:
            c.add("proximity", op, [ti], dict(p), heavy=True, always=(op == "proximity" and tag.startswith("md4e9")))
        c.add("proximity", op, [tf], {"max_distance": 2.0}, heavy=True)
        c.add("proximity", op, [tl], {"distance_metric": "GREAT_CIRCLE"}, heavy=True)
        c.add("proximity", op, [ti], {"max_distance": 2.0}, backend="dask", heavy=True,
              chunks={ti: _chunks(rng, (8, 9))})
        c.add("proximity", op, [ti], {"target_values": [1]}, backend="dask", heavy=True,
              chunks={ti: _chunks(rng, (8, 9))})

    # ---- zonal family
    zi = c.raster("zones_i4", _spec(cats(rs, "i4"), 1.0, 1.0))
    zf = c.raster("zones_f8", _spec(cats(rs, "f8"), 1.0, 1.0))
    va = c.raster("vals_f8", _spec(rs.normal(0, 50, (H0, W0)), 1.0, 1.0))
    vi = c.raster("vals_i4", _spec(rs.randint(0, 9, (H0, W0)).astype("i4"), 1.0, 1.0))
    c.add("zonal", "zonal_stats", [zi, va], {}, identity="own")             # default stats list
    c.add("zonal", "zonal_stats", [zi, va], {"stats_funcs": ["max", "count"]}, identity="own")
    c.add("zonal", "zonal_stats", [zf, va], {"zone_ids": [1.0, 3.0], "nodata_values": 0}, identity="own")
    c.add("zonal", "zonal_stats", [zi, vi], {"stats_funcs": ["mean", "std", "var"]}, identity="own")
    c.add("zonal", "zonal_stats_custom", [zi, va], {"stats_funcs": ["dbl_sum", "rng"]}, identity="own")
    c.add("zonal", "zonal_stats_custom", [zi, va], {"stats_funcs": ["first"]}, identity="own")
    c.add("zonal", "zonal_stats_custom", [zi, va], {"stats_funcs": ["mean", "rng"]}, identity="own")
    c.add("zonal", "zonal_stats_xarray", [zi, va], {"stats_funcs": ["mean", "max"]}, identity="own")
    c.add("zonal", "zonal_stats", [zi, va], {"stats_funcs": ["median"]}, identity="own", expect_error="ValueError")
    c.add("zonal", "zonal_stats", [zi, va], {}, backend="dask", identity="own",
          chunks={zi: [[3, 3], [4, 3]], va: [[6], [7]]})
    c.add("zonal", "zonal_stats", [zi, vi], {"stats_funcs": ["sum", "min"]}, backend="dask", identity="own",
          chunks={zi: [[2, 4], [7]], vi: [[2, 4], [7]]})
    c.add("zonal", "zonal_crosstab", [zi, vi], {}, identity="own")
    c.add("zonal", "zonal_crosstab", [zi, vi], {"agg": "percentage", "cat_ids": [1, 2, 3]}, identity="own")
    c.add("zonal", "zonal_crosstab", [zf, vi], {"zone_ids": [0.0, 2.0], "nodata_values": 0}, identity="own")
    c.add("zonal", "zonal_crosstab", [zi, vi], {}, backend="dask", identity="own",
          chunks={zi: [[3, 3], [4, 3]], vi: [[6], [3, 4]]})
    c.add("zonal", "zonal_apply", [zi, va], {"func": "double", "nodata": 0}, identity="inplace", private=True)
    c.add("zonal", "zonal_apply", [zi, vi], {"func": "plus1", "nodata": 1}, identity="inplace", private=True)
    for nb in (4, 8):
        c.add("zonal", "regions", [zi], {"neighborhood": nb})
        c.add("zonal", "regions", [zf], {"neighborhood": nb})
    tr = elev(rs, "f8")
    tr[0, :] = np.nan
    tr[:, -1] = np.nan
    trr = c.raster("trimme_f8", _spec(tr, 1.0, 1.0))
    zt = cats(rs, "i4")
    zt[:, 0] = 0
    zt[-1, :] = 0
    ztr = c.raster("trimme_i4", _spec(zt, 1.0, 1.0))
    c.add("zonal", "trim", [trr], {}, identity="window")
    c.add("zonal", "trim", [ztr], {"values": [0]}, identity="window")
    c.add("zonal", "trim", [ztr], {"values": [0, 1]}, identity="window")
    c.add("zonal", "crop", [ztr, va], {"zones_ids": [2]}, identity="window")
    c.add("zonal", "crop", [ztr, va], {"zones_ids": [1, 3]}, identity="window")

    # ---- pathfinding
    su = elev(rs, "f8")
    su[2, 1:5] = np.nan
    sr = c.raster("surface_f8", _spec(su, 1.0, 1.0, res=False))
    si = c.raster("surface_i4", _spec(cats(rs, "i4", n=3), 1.0, 1.0, res=False))
    c.add("pathfinding", "a_star_search", [sr], {"start": (0.0, 0.0), "goal": (5.0, 6.0)}, heavy=True)
    c.add("pathfinding", "a_star_search", [sr], {"start": (0.0, 0.0), "goal": (5.0, 6.0), "connectivity": 4}, heavy=True)
    c.add("pathfinding", "a_star_search", [si], {"start": (0.0, 0.0), "goal": (5.0, 6.0), "barriers": [0]}, heavy=True)
    c.add("pathfinding", "a_star_search", [si], {"start": (0.0, 0.0), "goal": (5.0, 6.0), "barriers": [0, 1],
                                                 "snap_start": True, "snap_goal": True}, heavy=True)
    c.add("pathfinding", "a_star_search", [si], {"start": (0.0, 0.0), "goal": (5.0, 6.0)}, heavy=True)
    c.add("pathfinding", "a_star_search", [sr], {"start": (0.0, 0.0), "goal": (50.0, 6.0)}, expect_error="ValueError")

    # ---- polygonize (type-based comparison generation)
    pi = c.raster("poly_i4", _spec(cats(rs, "i4", 5, 6, 3), 1.0, 1.0))
    pf = c.raster("poly_f8", _spec(cats(rs, "f8", 5, 6, 3) * 0.5, 1.0, 1.0))
    pm = c.raster("poly_mask", _spec((rs.rand(5, 6) < 0.8).astype("u1"), 1.0, 1.0))
    for rid in (pi, pf):
        for conn in (4, 8):
            c.add("polygonize", "polygonize", [rid], {"connectivity": conn}, identity="own", heavy=True)
        c.add("polygonize", "polygonize", [rid, pm], {"connectivity": 4}, identity="own", heavy=True)
    c.add("polygonize", "polygonize", [pi], {"connectivity": 4, "transform": [2.0, 0.0, 10.0, 0.0, -2.0, 50.0]},
          identity="own", heavy=True)

    # ---- local
    la = c.raster("loc_a", _spec(cats(rs, "i8", 4, 4, 4), 1.0, 1.0))
    lb = c.raster("loc_b", _spec(cats(rs, "i8", 4, 4, 4), 1.0, 1.0))
    lc = c.raster("loc_c", _spec(cats(rs, "f8", 4, 4, 4), 1.0, 1.0))
    for fn in ("sum", "max", "mean", "median"):
        c.add("local", "local_cell_stats", [la, lb, lc], {"func": fn}, identity="own")
    c.add("local", "local_cell_stats", [la, lb, lc], {"func": "sum", "data_vars": ["a", "c"]}, identity="own")
    c.add("local", "local_combine", [la, lb, lc], {}, identity="own")
    c.add("local", "local_combine", [la, lb, lc], {"data_vars": ["a", "b"]}, identity="own")
    for op in ("lesser_frequency", "equal_frequency", "greater_frequency", "popularity", "rank"):
        c.add("local", "local_" + op, [la, lb, lc], {"ref_var": "a"}, identity="own")
    c.add("local", "local_rank", [la, lb, lc], {"ref_var": "b", "data_vars": ["a", "c"]}, identity="own")
    c.add("local", "local_lowest_position", [la, lb, lc], {}, identity="own")
    c.add("local", "local_highest_position", [la, lb, lc], {}, identity="own")
    c.add("local", "local_cell_stats", [la, lb, lc], {"func": "mode"}, identity="own", expect_error="ValueError")

    # ---- seeded generators: functions of seed, shape and extent only
    t8 = c.raster("tmpl_f8", _spec(np.zeros((6, 8)), 1.0, 1.0))
    t4 = c.raster("tmpl_f4", _spec(np.zeros((6, 8), dtype="f4"), 1.0, 1.0))
    t9 = c.raster("tmpl_f8_b", _spec(np.ones((6, 8)) * 7.0, 1.0, 1.0))     # same shape, other content
    for sd in (5, 0, 12345):
        c.add("generators", "perlin", [t8], {"seed": sd}, identity="own", heavy=True)
    c.add("generators", "perlin", [t9], {"seed": 5}, identity="own", heavy=True)
    c.add("generators", "perlin", [t4], {"seed": 5}, identity="own", heavy=True)
    c.add("generators", "perlin", [t8], {"seed": 5, "freq": (2, 3)}, identity="own", heavy=True)
    c.add("generators", "perlin", [t4], {"seed": 5}, backend="dask", identity="own", heavy=True,
          chunks={t4: [[3, 3], [4, 4]]})
    for sd, zf_ in ((10, 4000), (300, 4000), (10, 100), (7700, 4000)):
        c.add("generators", "generate_terrain", [t8], {"seed": sd, "zfactor": zf_}, identity="own", heavy=True)
    c.add("generators", "generate_terrain", [t9], {"seed": 10, "zfactor": 4000}, identity="own", heavy=True)
    c.add("generators", "generate_terrain", [t8], {"seed": 10, "zfactor": 4000, "x_range": (0, 100),
                                                  "y_range": (0, 50)}, identity="own", heavy=True)
    c.add("generators", "generate_terrain", [t4], {"seed": 10, "zfactor": 4000}, backend="dask", identity="own",
          heavy=True, chunks={t4: [[3, 3], [4, 4]]})

    # ---- viewshed (15 s of JIT when cold: rationed)
    vr = c.raster("view_f8", _spec(elev(rs, "f8", 5, 6), 1.0, 1.0, res=False))
    c.add("viewshed", "viewshed", [vr], {"x": 2.0, "y": 2.0}, identity="viewshed", heavy=True)
    c.add("viewshed", "viewshed", [vr], {"x": 2.0, "y": 2.0, "observer_elev": 10}, identity="viewshed", heavy=True)
    c.add("viewshed", "viewshed", [vr], {"x": 4.0, "y": 1.0, "observer_elev": 1.5, "target_elev": 2.0},
          identity="viewshed", heavy=True)
    c.add("viewshed", "viewshed", [vr], {"x": 40.0, "y": 1.0}, identity="viewshed", expect_error="ValueError")
    # a float raster with NaN and +-inf cells, reused across functions that treat them differently
    nf = elev(rs, "f8")
    nf[1, 2] = np.nan
    nf[H0 - 2, 1] = np.inf
    nf[2, W0 - 2] = -np.inf
    enf = c.raster("elev_f8_nonfinite", _spec(nf, 2.0, 3.0))
    G = "one_raster_many_functions"     # the same DataArray object handed to one function after another
    c.add("classify", "equal_interval", [enf], {"k": 3}, group=G)
    c.add("classify", "quantile", [enf], {"k": 3}, group=G)
    c.add("classify", "binary", [enf], {"values": [float("inf"), 45.0]}, group=G)
    c.add("classify", "reclassify", [enf], {"bins": [40.0, 50.0, 60.0], "new_values": [1.0, 2.0, 3.0]}, group=G)
    c.add("terrain", "slope", [enf], group=G)
    c.add("terrain", "curvature", [enf], group=G)
    c.add("focal", "focal_mean", [enf], {}, group=G)
    c.add("focal", "convolution_2d", [enf], {"kernel": KW}, group=G)
    c.add("focal", "hotspots", [enf], {"kernel": K3}, identity="hotspots", group=G)
    c.add("kernels", "calc_cellsize", [enf], {}, identity="own", group=G)
    c.add("classify", "natural_breaks", [enf], {"k": 3}, group=G)
    # more than one pending lazy generator result (other seeds)
    c.add("generators", "perlin", [t4], {"seed": 0}, backend="dask", identity="own", heavy=True, chunks={t4: [[3, 3], [4, 4]]})
    c.add("generators", "generate_terrain", [t4], {"seed": 3, "zfactor": 4000}, backend="dask", identity="own",
          heavy=True, chunks={t4: [[3, 3], [4, 4]]})
    c.add("generators", "generate_terrain", [t8], {"seed": 77, "zfactor": 4000}, identity="own", heavy=True)
    c.add("terrain", "hillshade", [e8], {"azimuth": 225, "angle_altitude": 25}, backend="dask",
          chunks={e8: [[3, 3], [4, 3]]})
    c.add("terrain", "hillshade", [e8], {"azimuth": 45, "angle_altitude": 60}, backend="dask",
          chunks={e8: [[3, 3], [4, 3]]})

    # twins: same shape, dtype, layout and georeferencing, other content.  A history may edit a live
    # pool raster in place into its twin (what a user does between two calls on "the same" array)
    twins = []
    for rid, maker in ((zi, lambda: cats(rs, "i4")), (va, lambda: rs.normal(5, 20, (H0, W0))),
                       (e8, lambda: elev(rs, "f8"))):
        b = rid + "_b"
        spec = copy.deepcopy(c.pool[rid])
        spec["data"] = maker()
        c.raster(b, spec)
        twins.append([rid, b])
    zib, vab, e8b = zi + "_b", va + "_b", e8 + "_b"
    c.add("zonal", "zonal_stats", [zib, va], {}, identity="own")
    c.add("zonal", "zonal_stats", [zi, vab], {}, identity="own")
    c.add("zonal", "zonal_stats", [zib, vab], {"stats_funcs": ["max", "count"]}, identity="own")
    c.add("zonal", "zonal_crosstab", [zib, vi], {}, identity="own")
    c.add("zonal", "regions", [zib], {"neighborhood": 4})
    c.add("terrain", "slope", [e8b])
    c.add("focal", "focal_mean", [e8b], {})
    c.add("classify", "natural_breaks", [e8b], {"k": 5})
    c.add("classify", "quantile", [e8b], {"k": 5})
    out = c.data()
    out["twins"] = twins
    return out


# --------------------------------------------------------------------------
# C10: every public function x dtype x layout x backend
# --------------------------------------------------------------------------

def catalogue_c10(seed, tier, rng):
    rs = np.random.RandomState(rng.getrandbits(32))
    c = Cat()
    K = np.array([[1, 1, 1], [1, 0, 1], [1, 1, 1]], dtype=float)
    K35 = np.ones((3, 5))
    KW = np.array([[0.5, -1.0, 2.0], [1.0, 0.25, 0.0], [3.0, 1.0, -0.5]])

    def R(kind, dt, layout, **kw):
        scalar_res = kw.pop("scalar_res", False)
        nan_at = kw.pop("nan_at", None)
        nonfinite = kw.pop("nonfinite", True)
        rid = "%s_%s_%s%s%s" % (kind, dt, layout, "_sres" if scalar_res else "", "_nan%d_%d" % nan_at if nan_at else "")
        # every variation of shape / georeferencing / content is its own pool raster
        var = sorted((k, repr(v)) for k, v in list(kw.items()) + ([("nonfinite", False)] if not nonfinite else []))
        if var:
            rid += "_" + "".join("%s%s" % (k[0], "".join(ch for ch in v if ch.isalnum())) for k, v in var)
        if rid in c.pool:
            return rid
        if scalar_res:
            # the scalar form of the res attribute (what bump / make_terrain produce)
            kw["cx"] = kw["cy"] = 2.0
            kw["attrs"] = dict(_attrs(2.0, 2.0), res=2.0)
        H, W = kw.pop("shape", (H0, W0))
        if kind == "elev":
            d = elev(rs, dt, H, W)
            if d.dtype.kind == "f" and H >= 4 and W >= 4 and nonfinite:
                # NaN / +-inf cells: functions that "clean" such cells must do it on a copy
                d[1, 2] = np.nan
                d[H - 2, 1] = np.inf
                d[2, W - 2] = -np.inf
        elif kind == "cats":
            d = cats(rs, dt, H, W)
        elif kind == "targets":
            d = targets(rs, dt, H, W)
        elif kind == "band":
            d = (rs.randint(1, 100, (H, W))).astype(dt) if np.dtype(dt).kind in "iu" else rs.uniform(0.01, 1.0, (H, W)).astype(dt)
        elif kind == "zeros":
            d = np.zeros((H, W), dtype=dt)
        elif kind == "trim":
            d = elev(rs, dt, H, W)
            d[0, :] = 0
            d[:, -1] = 0
        else:
            raise KeyError(kind)
        if nan_at and d.dtype.kind == "f":
            d[nan_at] = np.nan
        return c.raster(rid, _spec(d, kw.pop("cx", 2.0), kw.pop("cy", 3.0), layout=layout, **kw))

    combos = [(dt, lay) for dt in ALL10 for lay in LAYOUTS]
    rng.shuffle(combos)

    def some(n, native=True):
        """n (dtype, layout) combos, rotating through the shuffled product - plus, always, the
        'native' float dtypes in C layout: a cast that is a no-op for them is where aliasing hides."""
        out = combos[:n]
        combos[:] = combos[n:] + out
        if native:
            out = out + [c_ for c_ in (("f8", "C"), ("f4", "C")) if c_ not in out]
        return out

    per = 6 if tier == "quick" else 40
    for op in ("slope", "aspect", "curvature"):
        for dt, lay in some(per):
            c.add("terrain", op, [R("elev", dt, lay)])
    for op in ("slope", "curvature", "aspect"):
        for dt, lay in some(2, native=False):
            c.add("terrain", op, [R("elev", dt, lay, scalar_res=True)])
    for dt, lay in some(per):
        c.add("terrain", "hillshade", [R("elev", dt, lay)], {"azimuth": 225, "angle_altitude": 25})
    for dt, lay in some(2):
        # a Dataset that carries the terrain along: that variable must be a copy too
        c.add("terrain", "summarize_terrain", [R("elev", dt, lay, name="dem")], {}, identity="own")
    for dt, lay in some(per):
        c.add("focal", "focal_mean", [R("elev", dt, lay)], {"passes": 1})
    for dt, lay in some(per):
        c.add("focal", "focal_mean", [R("elev", dt, lay)], {"passes": 0})
    for dt, lay in some(per):
        c.add("focal", "focal_apply", [R("elev", dt, lay)], {"kernel": K35, "func": "mean"})
    for dt, lay in some(per):
        c.add("focal", "hotspots", [R("elev", dt, lay)], {"kernel": K}, identity="hotspots")
    for dt, lay in some(per):
        c.add("focal", "convolution_2d", [R("elev", dt, lay)], {"kernel": KW})
    for dt, lay in some(max(2, per // 2)):
        c.add("focal", "focal_stats", [R("elev", dt, lay)], {"kernel": K, "stats_funcs": ["mean", "max"]}, identity="own")
    for dt, lay in some(per):
        c.add("classify", "binary", [R("elev", dt, lay)], {"values": [40.0, 45.0, 50.0]})
    for dt, lay in some(per):
        c.add("classify", "reclassify", [R("elev", dt, lay)], {"bins": [40.0, 50.0, 60.0], "new_values": [1.0, 2.0, 3.0]})
    for dt, lay in some(per):
        c.add("classify", "equal_interval", [R("elev", dt, lay)], {"k": 3})
    for dt, lay in some(per):
        c.add("classify", "quantile", [R("elev", dt, lay)], {"k": 3})
    for dt, lay in some(per):
        c.add("classify", "natural_breaks", [R("elev", dt, lay)], {"k": 3})
    ms = [("ndvi", 2), ("savi", 2), ("gci", 2), ("nbr", 2), ("nbr2", 2), ("ndmi", 2), ("arvi", 3), ("evi", 3),
          ("sipi", 3), ("ebbi", 3)]
    for op, nb in ms:
        for dt, lay in some(max(2, per // 3)):
            rr = [R("band", dt, lay)] + [R("band", rng.choice(ALL10), rng.choice(LAYOUTS)) for _ in range(nb - 1)]
            c.add("multispectral", op, rr)
    for dt, lay in some(per):
        rr = [R("band", dt, lay), R("band", rng.choice(ALL10), rng.choice(LAYOUTS)), R("band", rng.choice(ALL10), "C")]
        c.add("multispectral", "true_color", rr, {}, identity="own")
    for op in ("proximity", "allocation", "direction"):
        for dt, lay in some(max(2, per // 3), native=False):
            c.add("proximity", op, [R("targets", dt, lay)], {"max_distance": 6.0}, heavy=True)
    for dt, lay in some(per):
        c.add("zonal", "regions", [R("cats", dt, lay)], {"neighborhood": 4})
    for dt, lay in some(per):
        zdt = dt if dt != "f4" else "f8"
        c.add("zonal", "zonal_stats", [R("cats", zdt, lay), R("elev", rng.choice(ALL10), rng.choice(LAYOUTS))],
              {}, identity="own")
    for dt, lay in some(max(2, per // 2)):
        c.add("zonal", "zonal_crosstab", [R("cats", dt, lay), R("cats", rng.choice(ALL10), rng.choice(LAYOUTS))],
              {}, identity="own")
    for dt, lay in some(max(2, per // 2)):
        c.add("zonal", "zonal_stats_xarray", [R("cats", "i4", lay), R("elev", dt, "C")], {"stats_funcs": ["mean"]},
              identity="own")
    for dt, lay in some(per):
        c.add("zonal", "trim", [R("trim", dt, lay)], {"values": [0]}, identity="window")
    for dt, lay in some(per):
        c.add("zonal", "crop", [R("cats", "i4", lay), R("elev", dt, rng.choice(LAYOUTS))], {"zones_ids": [1, 2]},
              identity="window")
    for dt, lay in some(max(2, per // 2)):
        idt = dt if np.dtype(dt).kind in "iu" else "i4"
        if lay == "readonly":
            lay = "C"
        c.add("zonal", "zonal_apply", [R("cats", idt, "C"), R("elev", dt, lay)], {"func": "double", "nodata": 0},
              identity="inplace", private=True)
    for dt, lay in some(max(2, per // 2), native=False):
        c.add("pathfinding", "a_star_search", [R("elev", dt, lay, res=False, cx=1.0, cy=1.0, nonfinite=False)],
              {"start": (0.0, 0.0), "goal": (5.0, 6.0)}, heavy=True)
    c.add("pathfinding", "a_star_search", [R("elev", "f8", "C", scalar_res=True, nonfinite=False)],
          {"start": (0.0, 0.0), "goal": (10.0, 12.0)}, heavy=True)
    for dt, lay in some(max(2, per // 2), native=False):
        c.add("polygonize", "polygonize", [R("cats", dt, lay, shape=(5, 6))], {"connectivity": 4}, identity="own", heavy=True)
    for op in ("local_cell_stats", "local_combine", "local_lowest_position", "local_highest_position"):
        for dt, lay in some(2):
            c.add("local", op, [R("cats", dt, lay, shape=(4, 4)), R("cats", "i8", "C", shape=(4, 4)),
                                R("cats", "f8", "F", shape=(4, 4))], {}, identity="own")
    for op in ("local_lesser_frequency", "local_equal_frequency", "local_greater_frequency", "local_popularity",
               "local_rank"):
        for dt, lay in some(2):
            if op == "local_rank" and np.dtype(dt).kind == "f":
                dt = "i4"       # rank indexes a list with the reference value: integers only
            c.add("local", op, [R("cats", dt, lay, shape=(4, 4)), R("cats", "i8", "C", shape=(4, 4)),
                                R("cats", "f8", "F", shape=(4, 4))], {"ref_var": "a"}, identity="own")
    for dt in ("f4", "f8"):
        for lay in LAYOUTS:
            c.add("generators", "perlin", [R("zeros", dt, lay, shape=(6, 8))], {"seed": 5}, identity="own", heavy=True)
    for dt, lay in (("f8", "C"), ("f4", "readonly"), ("f8", "strided")):
        c.add("generators", "generate_terrain", [R("zeros", dt, lay, shape=(6, 8))], {"seed": 10}, identity="own", heavy=True)
    c.add("viewshed", "viewshed", [R("elev", "f8", "C", shape=(5, 6), res=False, cx=1.0, cy=1.0, nonfinite=False,
                                     nan_at=(2, 2))],
          {"x": 2.0, "y": 2.0, "observer_elev": 3}, identity="viewshed", heavy=True)   # observer on a NaN cell
    for dt, lay in some(2 if tier == "quick" else 8, native=False):
        c.add("viewshed", "viewshed", [R("elev", dt, lay, shape=(5, 6), res=False, cx=1.0, cy=1.0, nonfinite=False)],
              {"x": 2.0, "y": 2.0, "observer_elev": 3}, identity="viewshed", heavy=True)

    # rasters whose grids agree up to float rounding only; rasters carrying 2-D non-index coordinates
    for op, nb in (("ndvi", 2), ("savi", 2), ("arvi", 3), ("evi", 3)):
        rr = [R("band", "f4", "C")] + [R("band", rng.choice(["f4", "f8", "u1"]), "C", linspace=True) for _ in range(nb - 1)]
        c.add("multispectral", op, rr)
    c.add("zonal", "zonal_stats", [R("cats", "i4", "C"), R("elev", "f8", "C", linspace=True)], {}, identity="own")
    for op in ("slope", "curvature", "aspect"):
        c.add("terrain", op, [R("elev", "f8", "C", lonlat2d=True)])
        c.add("terrain", op, [R("elev", "f4", "F", lonlat2d=True)])
    c.add("focal", "focal_mean", [R("elev", "f8", "C", lonlat2d=True)], {"passes": 1})
    c.add("classify", "binary", [R("elev", "i4", "C", lonlat2d=True)], {"values": [40.0, 45.0]})
    # pathfinding with barriers
    for dt, lay in (("f8", "C"), ("f4", "C"), ("i4", "C"), ("f8", "F")):
        c.add("pathfinding", "a_star_search", [R("cats", dt, lay, res=False, cx=1.0, cy=1.0)],
              {"start": (0.0, 0.0), "goal": (5.0, 6.0), "barriers": [0]}, heavy=True)

    # helpers that read georeferencing; custom statistics; 3-D crosstab
    for dt, lay in some(2, native=False):
        c.add("helpers", "calc_cellsize", [R("elev", dt, lay, scalar_res=True)], {}, identity="own")
        c.add("helpers", "calc_cellsize", [R("elev", dt, lay)], {}, identity="own")
        c.add("helpers", "calc_cellsize", [R("elev", dt, lay, res=False, cx=1.0, cy=1.0, nonfinite=False)], {}, identity="own")
    for dt, lay in some(2, native=False):
        c.add("zonal", "zonal_stats_custom", [R("cats", "i4", lay), R("elev", dt, "C")], {"stats_funcs": ["dbl_sum", "rng"]},
              identity="own")
    v3 = c.raster("cube_f8", {"data": rs.randint(0, 5, (3, H0, W0)).astype("f8"), "dims": ["layer", "y", "x"],
                              "coords": {"layer": np.array([10, 20, 30]), "y": 0.0 + 3.0 * np.arange(H0), "x": 0.0 + 2.0 * np.arange(W0)},
                              "scalar_coords": {"spatial_ref": 0}, "attrs": _attrs(2.0, 3.0), "name": None, "layout": "C", "chunks": None})
    c.add("zonal", "zonal_crosstab", [R("cats", "i4", "C"), v3], {"layer": 0, "agg": "count"}, identity="own")
    c.add("zonal", "zonal_crosstab", [R("cats", "i4", "F"), v3], {"layer": 0, "agg": "mean"}, identity="own")
    c.add("dask", "zonal_crosstab", [R("cats", "i4", "C"), v3], {"layer": 0, "agg": "count"}, backend="dask", identity="own",
          chunks={R("cats", "i4", "C"): [[3, 3], [7]], v3: [[1, 2], [6], [3, 4]]})

    # failing calls: the library rejects the arguments - the inputs must be untouched all the same
    for dt, lay in some(2, native=False):
        c.add("failing", "focal_apply", [R("elev", dt, lay)], {"kernel": np.ones((2, 3)), "func": "mean"},
              expect_error="ValueError")
        c.add("failing", "reclassify", [R("elev", dt, lay)], {"bins": [40.0, 50.0], "new_values": [1.0]},
              expect_error="ValueError")
        c.add("failing", "ndvi", [R("band", dt, lay), R("band", "f4", "C", shape=(4, 5))], {}, expect_error="ValueError")
        c.add("failing", "zonal_stats", [R("cats", "i4", lay), R("elev", dt, "C")], {"stats_funcs": ["median"]},
              identity="own", expect_error="ValueError")
        c.add("failing", "a_star_search", [R("elev", dt, lay, res=False, cx=1.0, cy=1.0, nonfinite=False)],
              {"start": (0.0, 0.0), "goal": (500.0, 6.0)}, expect_error="ValueError")
        c.add("failing", "regions", [R("cats", dt, lay)], {"neighborhood": 5}, expect_error="ValueError")

    # Dask rasters over caller-owned buffers (chunks are views of them)
    dk = [("slope", {}, "same"), ("aspect", {}, "same"), ("curvature", {}, "same"),
          ("hillshade", {"azimuth": 225, "angle_altitude": 25}, "same"),
          ("focal_mean", {"passes": 1}, "same"), ("focal_apply", {"kernel": K35, "func": "mean"}, "same"),
          ("hotspots", {"kernel": K}, "hotspots"), ("convolution_2d", {"kernel": KW}, "same"),
          ("binary", {"values": [40.0, 45.0]}, "same"),
          ("reclassify", {"bins": [40.0, 50.0, 60.0], "new_values": [1.0, 2.0, 3.0]}, "same"),
          ("equal_interval", {"k": 3}, "same"),
          ("focal_stats", {"kernel": K, "stats_funcs": ["mean"]}, "own"),
          ("convolution_2d", {"kernel": np.ones((5, 5))}, "same"), ("focal_apply", {"kernel": np.ones((5, 3)), "func": "max"}, "same"),
          ("hotspots", {"kernel": np.ones((5, 5))}, "hotspots")]
    for op, p, ident in dk:
        for n_, (dt, _) in enumerate(some(2 if tier == "quick" else 10, native=False) + [("f4", "C"), ("f8", "C")]):
            rid = R("elev", dt, "C")
            ch = _chunks(rng, (H0, W0)) if n_ % 2 == 0 else [[1] * H0, _chunks(rng, (H0, W0))[1]]
            c.add("dask", op, [rid], p, backend="dask", chunks={rid: ch}, identity=ident)
    for op, nb in ms[:4] + [("true_color", 3)]:
        for dt, _ in some(2 if tier == "quick" else 6):
            rr = [R("band", dt, "C")] + [R("band", rng.choice(["f4", "f8", "u1", "u2"]), "C") for _ in range(nb - 1)]
            c.add("dask", op, rr, {}, backend="dask", chunks={x: _chunks(rng, (H0, W0)) for x in rr},
                  identity="own" if op == "true_color" else "same")
    for op in ("proximity", "allocation", "direction"):
        rid = R("targets", rng.choice(["i4", "f8", "f4"]), "C")
        c.add("dask", op, [rid], {"max_distance": 6.0}, backend="dask", heavy=True,
              chunks={rid: _chunks(rng, (H0, W0))})
    rz, rv = R("cats", "i4", "C"), R("elev", "f8", "C")
    c.add("dask", "zonal_stats", [rz, rv], {}, backend="dask", identity="own",
          chunks={rz: [[3, 3], [7]], rv: [[6], [3, 4]]})
    nd = float(np.asarray(c.pool[rv]["data"])[0, 0])
    c.add("dask", "zonal_stats", [rz, rv], {"nodata_values": nd, "stats_funcs": ["mean", "count"]}, backend="dask",
          identity="own", chunks={rz: [[3, 3], [7]], rv: [[3, 3], [7]]})
    c.add("dask", "zonal_crosstab", [rz, R("cats", "f8", "C")], {"nodata_values": 1.0}, backend="dask", identity="own",
          chunks={rz: [[3, 3], [7]], R("cats", "f8", "C"): [[3, 3], [7]]})
    rv2 = R("cats", "i8", "C")
    c.add("dask", "zonal_crosstab", [rz, rv2], {}, backend="dask", identity="own",
          chunks={rz: [[3, 3], [7]], rv2: [[6], [3, 4]]})
    rt = R("zeros", "f4", "C", shape=(6, 8))
    c.add("dask", "perlin", [rt], {"seed": 5}, backend="dask", identity="own", heavy=True, chunks={rt: [[3, 3], [4, 4]]})
    return c.data()


def subset_for_replay(cat, entry_ids):
    ids = sorted(set(entry_ids))
    entries = [copy.deepcopy(cat["entries"][i]) for i in ids]
    rids = {r for e in entries for r in e["rasters"]}
    return {"pool": {r: cat["pool"][r] for r in sorted(rids)}, "entries": entries}

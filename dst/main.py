"""Entry point: check <id> [--tier quick|thorough] [--replay f] [--runs N] | selftest ..."""
import argparse
import collections
import json
import os
import sys
import time

from . import determinism, findings, orchestrator, util

VERIF = orchestrator.VERIF
GRAPH = ("C01", "C03", "C07")
HIST = ("C10", "C11")
NWORKERS = int(os.environ.get("VERIF_WORKERS", "16"))

BUDGETS = {  # seconds of exploration per tier (VERIF_BUDGET_S overrides)
    "quick": {"C01": 60, "C03": 55, "C07": 60, "C10": 30, "C11": 60},
    "thorough": {"C01": 900, "C03": 900, "C07": 900, "C10": 900, "C11": 900},
}

REAL_STUB = {
    "real": ["xrspatial (working tree of /repo, unmodified)", "xarray", "numpy", "pandas",
             "numba-compiled kernels", "dask graph construction + optimisation",
             "dask.local scheduler state machine (start_state_from_dask, finish_task, release_data)",
             "dask exception packing / re-raise", "dask-expr dataframe lowering"],
    "stubbed": ["dask thread pool and task completion order (seeded simulated executor)",
                "uuid.uuid4/uuid1 (PRNG driven, determinism only)",
                "dask token of numba dispatchers (deterministic normaliser, determinism only)"],
    "absent": ["cupy / CUDA / RTX paths", "dask.distributed", "multiprocessing scheduler"],
}


def replay_dir():
    return os.environ.get("VERIF_REPLAY_DIR") or os.path.join(VERIF, "replays")


def budget_for(pid, tier):
    b = os.environ.get("VERIF_BUDGET_S")
    if b:
        return float(b)
    return float(BUDGETS[tier][pid])


def merge_counters(dicts):
    out = collections.Counter()
    for d in dicts:
        for k, v in (d or {}).items():
            out[k] += v
    return dict(out)


def write_evidence(pid, ev):
    evdir = os.environ.get("VERIF_EVIDENCE_DIR") or os.path.join(VERIF, "evidence")
    os.makedirs(evdir, exist_ok=True)
    path = os.path.join(evdir, pid + ".json")
    tmp = path + ".tmp"
    with open(tmp, "w") as f:
        json.dump(ev, f, indent=1, sort_keys=False, default=str)
        f.write("\n")
    os.replace(tmp, path)
    return path


def check_graph(pid, tier, seed, runs):
    t0 = time.monotonic()
    budget = budget_for(pid, tier)
    info = orchestrator.repo_info()
    outdir = replay_dir()
    argvs = []
    for w in range(NWORKERS):
        a = [pid, "--seed", seed, "--tier", tier, "--worker", w, "--nworkers", NWORKERS,
             "--budget", budget, "--outdir", outdir, "--info", json.dumps(info)]
        if runs is not None:
            a += ["--runs", runs]
        argvs.append(a)
    grace = 240 if tier == "quick" else 600
    results = orchestrator.run_workers("dst.worker_graph", argvs, wall_timeout=budget + grace
                                       if runs is None else max(budget, 3600) + grace)
    errs = orchestrator.harness_errors(results)
    summaries = [m for r in results for m in r.msgs if m.get("t") == "summary"]
    viols = [m for r in results for m in r.msgs if m.get("t") == "violation"]
    dups = [m for r in results for m in r.msgs if m.get("t") == "violation_dup"]
    counts = merge_counters([s["counts"] for s in summaries if True])
    counts["max_pool"] = max([s["counts"].get("max_pool", 0) for s in summaries] or [0])
    known_hits = merge_counters([s.get("known_hits") for s in summaries])
    notes = merge_counters([s.get("notes") for s in summaries])
    wall = time.monotonic() - t0
    evals = int(counts.get("evaluations", 0))
    samples = [x for s in summaries for x in s.get("samples", [])][:3]
    known = {e["id"]: e for e in findings.load()}
    for fid, n in sorted(known_hits.items()):
        e = known.get(fid, {})
        print("KNOWN-FINDING: property=%s %s (%s; hit %d times this run)" % (pid, e.get("what", fid), fid, n))
    for k, n in sorted(notes.items()):
        print("NOTE %s count=%d" % (k, n))
    for v in viols:
        print("VIOLATION property=%s replay=%s" % (pid, v["replay"]))
        print("  op=%s class=%s detail=%s" % (v.get("op"), v["violation"].get("class"),
                                             json.dumps(v["violation"])[:400]))
    ev = {
        "property_id": pid, "tier": tier, "seed": int(seed), "level": "exploration",
        "coverage": {
            "evaluations": evals,
            "distinct_nontrivial": int(sum(s.get("distinct_nontrivial", 0) for s in summaries)),
            "rule": ("one evaluation = one simulated execution of one public call's Dask graph(s) under one "
                     "seeded completion order (plus the NumPy-backend oracle call). Cases are generated from "
                     "(seed, property, run index): function, parameters, raster values/dtype/georeferencing, an "
                     "independent chunk composition per input, dask config knobs, schedule policy and fault plan. "
                     "Non-trivial = at least one input has >1 chunk on some axis AND the run had >=1 scheduling "
                     "choice AND (the policy is not dfs OR a fault fired). Distinct = distinct (case digest, full "
                     "schedule digest, fired-fault list) triples; every case belongs to exactly one worker (sharded by "
                     "op/dtype/reducer or by run index) so per-worker counts add exactly."),
            "samples": samples,
            "simulated_steps": int(counts.get("steps", 0)),
            "simulated_time_note": "there is no clock in the system; steps (task completions) are the only time",
            "scheduling_choice_points": int(counts.get("choice_points", 0)),
            "scheduler_invocations": int(counts.get("gets", 0)),
            "max_ready_set": int(counts.get("max_pool", 0)),
            "cases_generated": int(counts.get("cases", 0)),
            "runs_per_hour": int(evals / wall * 3600) if wall > 0 else 0,
            "seeds_per_hour": int(counts.get("cases", 0) / wall * 3600) if wall > 0 else 0,
            "seed_note": "every case index i is its own derived seed sha256(VERIF_SEED, property, i); seeds/hour = cases/hour",
            "distinct_interleavings": int(sum(s.get("distinct_schedules", 0) for s in summaries)),
            "distinct_interleavings_measure": "distinct digests of the full completion sequence (depth, task key, index in ready set, ready-set size) per simulated execution",
            "by_op": merge_counters([s.get("by_op") for s in summaries]),
            "by_policy": merge_counters([s.get("by_policy") for s in summaries]),
            "faults_fired": merge_counters([s.get("fired") for s in summaries]),
            "discarded": merge_counters([s.get("discards") for s in summaries]),
            "reach": merge_counters([s.get("reach") for s in summaries]),
            "probe_notes": notes,
            "known_findings_hit": known_hits,
            "duplicate_violation_reports": len(dups),
            "real_thread_differentials_run": int(counts.get("real_thread_differentials", 0)),
            "real_thread_differential_note": "observation of real threaded executions, triggered only by probe M1 "
                                             "(a task writes to an array shared through the task definition); a clean "
                                             "differential is not counted as evidence",
            "last_run_index": max([s.get("last_index", -1) for s in summaries] or [-1]),
            "workers": NWORKERS,
            "components": REAL_STUB,
            "repo": info,
            "harness_errors": errs,
        },
        "assumptions": [
            "tasks run atomically: pre-emption inside a task / inside a nopython kernel is not simulated",
            "the NumPy backend of the same call is the oracle (C01/C03/C07 state agreement, not absolute correctness)",
            "PYTHONHASHSEED=0 in every harness process (dask-expr key names depend on it)",
            "a clean batch is evidence about the explored (case, chunking, schedule, fault) tuples, not proof",
        ],
        "wall_s": round(wall, 2),
        "violations": len(viols),
    }
    write_evidence(pid, ev)
    print("%s tier=%s seed=%s evaluations=%d distinct_nontrivial=%d steps=%d violations=%d known=%d wall=%.1fs"
          % (pid, tier, seed, evals, ev["coverage"]["distinct_nontrivial"], ev["coverage"]["simulated_steps"],
             len(viols), sum(known_hits.values()), wall))
    if errs:
        for e in errs:
            print("HARNESS-ERROR " + e.replace("\n", " | ")[:2000])
    if viols:
        return 1
    if errs or evals == 0:
        return 2
    return 0


def replay_graph(path):
    from .props import GRAPH_PROPS
    from .run_graph import run_case
    rep = util.load_file(path)
    pid = rep["property"]
    P = GRAPH_PROPS[pid]
    for pre in rep.get("prelude") or []:
        # the calls the failing process had made before (history-dependent violation)
        po = run_case(pre["case"], pre["sched"], P.compare)
        print("replay: prelude case op=%s status=%s" % (pre["case"]["op"], po["status"]))
    o = run_case(rep["case"], rep["sched"], P.compare, m1=True)
    sim = o.get("sim")
    if sim is not None:
        print("replay: steps=%d replay_mismatch=%d fired=%s" % (sim.step, sim.replay_mismatch, sim.fired))
        if sim.watch_hits or sim.mutations:
            print("replay: monitors watch_hits=%s mutations=%s" % (sim.watch_hits, sim.mutations[:3]))
    if o["status"] == "violation":
        same = o["violation"].get("class") == rep["violation"].get("class")
        print("VIOLATION property=%s replay=%s" % (pid, path))
        print("  class=%s (recorded %s, %s) detail=%s" % (
            o["violation"].get("class"), rep["violation"].get("class"),
            "same" if same else "DIFFERENT", json.dumps(util.to_jsonable(o["violation"]))[:600]))
        return 1
    print("replay did not reproduce a violation (status=%s %s)" % (o["status"], o.get("reason", "")))
    return 0


def replay_threads(path):
    from .props import GRAPH_PROPS
    from . import realthreads
    rep = util.load_file(path)
    pid = rep["property"]
    v = realthreads.replay_dask_threads(rep, GRAPH_PROPS[pid].compare)
    if v is not None:
        print("VIOLATION property=%s replay=%s" % (pid, path))
        print("  real dask.threaded executions (not simulation): mismatch at repetition %s: %s"
              % (v.get("repetition"), json.dumps(util.to_jsonable(v))[:500]))
        return 1
    print("replay (30 real threaded executions) did not reproduce a violation; the recorded one was probabilistic")
    return 0


def main(argv=None):
    argv = list(sys.argv[1:] if argv is None else argv)
    ap = argparse.ArgumentParser(prog="check")
    ap.add_argument("target")
    ap.add_argument("sub", nargs="?")
    ap.add_argument("--tier", default=os.environ.get("VERIF_TIER", "quick"), choices=["quick", "thorough"])
    ap.add_argument("--seed", type=int, default=int(os.environ.get("VERIF_SEED", "0")))
    ap.add_argument("--runs", type=int, default=None)
    ap.add_argument("--replay", default=None)
    ap.add_argument("--size", default="small")
    a = ap.parse_args(argv)
    determinism.use_repo_tree()
    if a.target == "selftest":
        from . import selftest
        return selftest.main(a)
    if a.replay:
        rep = json.load(open(a.replay))
        if rep.get("engine") == "graphsim":
            return replay_graph(a.replay)
        if rep.get("engine") == "real_threads":
            return replay_threads(a.replay)
        from . import hist_main
        return hist_main.replay(a.replay)
    if a.target in GRAPH:
        return check_graph(a.target, a.tier, a.seed, a.runs)
    if a.target in HIST:
        from . import hist_main
        return hist_main.check(a.target, a.tier, a.seed, a.runs)
    print("unknown target %r" % a.target)
    return 2

"""Zygote worker for the history engine.

The process imports xrspatial (working tree of /repo) and *never calls it*; every
reference call and every history runs in a child forked from it, so a child's
state at its first call is the state of a fresh interpreter right after import.
"""
import argparse
import collections
import faulthandler
import json
import os
import pickle
import select
import signal
import sys
import threading
import time
import traceback

from . import determinism

determinism.use_repo_tree()
determinism.install()

from . import findings, hist_run, histsim, util  # noqa: E402
from . import cases  # noqa: F401,E402  (imports xrspatial, defines the op registry)


def emit(obj):
    sys.stdout.write(json.dumps(util.to_jsonable(obj), allow_nan=False, default=str) + "\n")
    sys.stdout.flush()


def in_child(fn, timeout):
    """Run fn() in a forked child; returns (result | None, error | None)."""
    r, w = os.pipe()
    sys.stdout.flush()
    pid = os.fork()
    if pid == 0:
        try:
            os.close(r)
            faulthandler.enable()
            try:
                data = pickle.dumps(("ok", fn()))
            except BaseException:
                data = pickle.dumps(("error", traceback.format_exc()))
            with os.fdopen(w, "wb") as f:
                f.write(data)
        finally:
            os._exit(0)
    os.close(w)
    chunks = []
    deadline = time.monotonic() + timeout
    err = None
    while True:
        left = deadline - time.monotonic()
        if left <= 0:
            err = "timeout after %ss" % timeout
            try:
                os.kill(pid, signal.SIGKILL)
            except OSError:
                pass
            break
        rl, _, _ = select.select([r], [], [], min(left, 5.0))
        if rl:
            b = os.read(r, 1 << 20)
            if not b:
                break
            chunks.append(b)
    os.close(r)
    try:
        _, status = os.waitpid(pid, 0)
    except ChildProcessError:
        status = 0
    if err:
        return None, err
    if not chunks:
        return None, "child died without a result (status %s)" % status
    try:
        kind, val = pickle.loads(b"".join(chunks))
    except Exception as e:
        return None, "unreadable child result: %r" % (e,)
    if kind == "error":
        return None, val
    return val, None


def do_reference(cat, eid):
    e = next(x for x in cat["entries"] if x["id"] == eid)
    rasters = [histsim.PoolRaster(rid, cat["pool"][rid], e["backend"], e["chunks"].get(rid)) for rid in e["rasters"]]
    o = histsim.run_call(e, rasters, 0, ("dfs", None))
    return {"digest": o.digest, "kind": o.canon.get("kind"), "canon": o.canon,
            "exc": getattr(o, "exc_info", None)}


def phase_ref(a, cat):
    mine = assignment(cat["entries"], a.nworkers)[a.worker]
    t0 = time.monotonic()
    n = 0
    unexpected = []
    for e in mine:
        t1 = time.monotonic()
        val, err = in_child(lambda: do_reference(cat, e["id"]), timeout=600)
        if err:
            emit({"t": "error", "trace": "reference for entry %d (%s): %s" % (e["id"], e["op"], err)})
            return 3
        with open(os.path.join(a.scratch, "ref_%d.pkl" % e["id"]), "wb") as f:
            pickle.dump(val["canon"], f)
        exp = e.get("expect_error")
        if (val["kind"] == "error") != bool(exp):
            unexpected.append({"entry": e["id"], "op": e["op"], "exc": val["exc"], "expected_error": exp})
        emit({"t": "ref", "entry": e["id"], "digest": val["digest"], "kind": val["kind"],
              "exc": val["exc"], "wall": round(time.monotonic() - t1, 2), "op": e["op"]})
        n += 1
    emit({"t": "summary", "worker": a.worker, "refs": n, "unexpected": unexpected,
          "wall_s": time.monotonic() - t0, "threads_in_zygote": threading.active_count()})
    return 0


def assignment(entries, nworkers):
    """Longest-processing-time-first split of the reference jobs (same in every worker)."""
    loads = [0.0] * nworkers
    out = [[] for _ in range(nworkers)]
    for e in sorted(entries, key=lambda e: (-hist_run.cost_of(e), e["id"])):
        w = min(range(nworkers), key=lambda k: (loads[k], k))
        out[w].append(e)
        loads[w] += hist_run.cost_of(e)
    return out


def strip(v):
    return {k: x for k, x in v.items() if not k.startswith("_")}


def run_one_history(a, cat, hist, refs, max_violations=3):
    """All segments of a history (a 'restart' ends a segment); merged result."""
    total = None
    start = 0
    seg = 0
    while start is not None:
        val, err = in_child(lambda: hist_run.run_history(a.prop, cat, hist, refs, start, max_violations),
                            timeout=a.hist_timeout)
        if err:
            return None, "history %d segment %d: %s" % (hist["h"], seg, err)
        seg += 1
        if total is None:
            total = val
            total["segments"] = 1
            total["traces"] = [val["trace"]]
        else:
            total["segments"] += 1
            total["traces"].append(val["trace"])
            for k in ("steps", "calls", "pairs", "param_transitions", "dask_calls", "sim_steps"):
                total[k] += val[k]
            for k in ("by_family", "faults", "notes"):
                c = collections.Counter(total[k])
                c.update(val[k])
                total[k] = dict(c)
            total["combos"] = sorted(set(total["combos"]) | set(val["combos"]))
            total["violations"].extend(val["violations"])
        start = val.get("next")
        if total["violations"]:
            break
    return total, None


def phase_hist(a, cat):
    refs = {}
    if a.prop == "C11":
        with open(os.path.join(a.scratch, "refs.json")) as f:
            refs = json.load(f)
    known = findings.load()
    t0 = time.monotonic()
    agg = {"histories": 0, "steps": 0, "calls": 0, "pairs": 0, "param_transitions": 0, "dask_calls": 0,
           "sim_steps": 0, "segments": 0}
    by_family = collections.Counter()
    faults = collections.Counter()
    notes = collections.Counter()
    known_hits = collections.Counter()
    combos = set()
    traces = []
    samples = []
    nviol = 0
    seen = set()
    h = a.worker - a.nworkers
    while True:
        h += a.nworkers
        if a.runs is not None and h >= a.runs:
            break
        if a.runs is None and time.monotonic() - t0 > a.budget:
            break
        hist = hist_run.gen_history(cat, a.prop, a.seed, h, a.tier)
        val, err = run_one_history(a, cat, hist, refs)
        if err:
            emit({"t": "error", "trace": err})
            return 3
        agg["histories"] += 1
        for k in ("steps", "calls", "pairs", "param_transitions", "dask_calls", "sim_steps", "segments"):
            agg[k] += val[k]
        by_family.update(val["by_family"])
        faults.update(val["faults"])
        notes.update(val["notes"])
        combos.update(val["combos"])
        traces.append([h, val["traces"]])
        if len(samples) < 2:
            ent = {e["id"]: e for e in cat["entries"]}
            samples.append({"history": h, "mode": hist["mode"], "threads": hist["threads"],
                            "families": hist["families"], "length": len(hist["ops"]),
                            "first_ops": [(op["k"] + (":" + ent[op["e"]]["op"] + "#%d" % op["e"]
                                                        if isinstance(op.get("e"), int) else ""))
                                          for op in hist["ops"][:25]]})
        for v in val["violations"]:
            sig = signature(a.prop, v)
            kf = findings.match(known, a.prop, sig)
            if kf is not None:
                known_hits[kf["id"]] += 1
                continue
            key = json.dumps(sig, sort_keys=True)
            if key in seen or nviol >= a.max_violations:
                emit({"t": "violation_dup", "signature": sig, "history": h})
                continue
            seen.add(key)
            nviol += 1
            path = report(a, cat, hist, v, sig)
            emit({"t": "violation", "history": h, "replay": path, "signature": sig, "violation": strip(v)})
    emit({"t": "summary", "worker": a.worker, "agg": agg, "by_family": dict(by_family), "faults": dict(faults),
          "notes": dict(notes), "known_hits": dict(known_hits), "combos": sorted(combos), "traces": traces,
          "samples": samples, "wall_s": time.monotonic() - t0, "last_history": h - a.nworkers,
          "threads_in_zygote": threading.active_count()})
    return 0


def signature(prop, v):
    sig = {"op": v.get("op"), "class": v.get("class")}
    if v.get("exc"):
        sig["exc_type"] = v["exc"].get("type")
    return sig


def report(a, cat, hist, v, sig):
    """Minimise (ddmin over the op list, each candidate in a fresh child) and write the replay file."""
    os.makedirs(a.outdir, exist_ok=True)
    refs_needed = a.prop == "C11"
    cls = v["class"]
    target_entry = v.get("entry")

    def fails(ops):
        h2 = dict(hist, ops=ops)
        refs = {}
        if refs_needed:
            with open(os.path.join(a.scratch, "refs.json")) as f:
                refs = json.load(f)
        val, err = run_one_history(a, cat, h2, refs, max_violations=1)
        if err or not val["violations"]:
            return None
        x = val["violations"][0]
        return x if (x["class"] == cls and x.get("op") == v.get("op")) else None

    ops = list(hist["ops"][: v["step"] + 1])
    t0 = time.monotonic()
    log = []
    best_v = v
    # ddmin-lite: try the last op alone, then drop halves / quarters / single ops
    tries = 0
    if len(ops) > 1:
        x = fails(ops[-1:])
        tries += 1
        if x:
            ops, best_v = ops[-1:], x
            log.append("the failing call alone already fails (history irrelevant)")
    n = 2
    while len(ops) > 1 and time.monotonic() - t0 < 150 and tries < 40:
        body, tail = ops[:-1], ops[-1:]
        size = max(1, len(body) // n)
        reduced = False
        for s in range(0, len(body), size):
            cand = body[:s] + body[s + size:] + tail
            tries += 1
            x = fails(cand)
            if x:
                ops, best_v = cand, x
                log.append("dropped %d op(s) at %d" % (min(size, len(body) - s), s))
                reduced = True
                n = max(n - 1, 2)
                break
            if time.monotonic() - t0 > 150 or tries >= 40:
                break
        if not reduced:
            if size == 1:
                break
            n = min(len(body), n * 2)
    used = []
    for op in ops:
        if "e" in op:
            used.extend(op["e"] if isinstance(op["e"], list) else [op["e"]])
    sub = gen_subset(cat, used)
    for op in ops:
        if op["k"] == "edit":
            for rid in (op["a"], op["b"]):
                sub["pool"][rid] = cat["pool"][rid]
    sub["twins"] = cat.get("twins", [])
    diff = None
    if refs_needed and "_canon" in best_v:
        try:
            with open(os.path.join(a.scratch, "ref_%d.pkl" % best_v["entry"]), "rb") as f:
                want = pickle.load(f)
            diff = histsim.result_diff(best_v["_canon"], want)
        except Exception:
            diff = None
    rep = {"property": a.prop, "engine": "histsim", "catalogue": sub,
           "history": dict(hist, ops=ops), "violation": dict(strip(best_v), first_difference=diff),
           "signature": sig, "minimise_log": log, "original_length": len(hist["ops"]),
           "info": dict(json.loads(a.info), seed=a.seed, tier=a.tier, history=hist["h"])}
    path = os.path.join(a.outdir, "%s-s%d-h%d-%s.json" % (a.prop, a.seed, hist["h"], cls[:40]))
    util.dump_file(path, rep)
    return path


def gen_subset(cat, ids):
    from .gen_hist import subset_for_replay
    index = {e["id"]: k for k, e in enumerate(cat["entries"])}
    return subset_for_replay(cat, [index[i] for i in ids])


def main(argv=None):
    ap = argparse.ArgumentParser()
    ap.add_argument("prop")
    ap.add_argument("phase", choices=["ref", "hist"])
    ap.add_argument("--seed", type=int, default=0)
    ap.add_argument("--tier", default="quick")
    ap.add_argument("--worker", type=int, default=0)
    ap.add_argument("--nworkers", type=int, default=1)
    ap.add_argument("--budget", type=float, default=60.0)
    ap.add_argument("--runs", type=int, default=None)
    ap.add_argument("--scratch", required=True)
    ap.add_argument("--outdir", default="/verif/replays")
    ap.add_argument("--max-violations", type=int, default=3)
    ap.add_argument("--hist-timeout", type=float, default=900.0)
    ap.add_argument("--info", default="{}")
    a = ap.parse_args(argv)
    faulthandler.enable()
    cat = hist_run.catalogue(a.prop, a.seed, a.tier)
    if threading.active_count() != 1:
        emit({"t": "note", "note": "zygote has %d threads before fork" % threading.active_count()})
    if a.phase == "ref":
        return phase_ref(a, cat)
    return phase_hist(a, cat)


if __name__ == "__main__":
    try:
        sys.exit(main())
    except Exception:
        emit({"t": "error", "trace": traceback.format_exc()})
        sys.exit(3)

"""graphsim - Dask's *real* local scheduler state machine with a simulated executor.

Seam: ``dask.config.set(scheduler=sim.get)``; ``sim.get`` calls the real
``dask.local.get_async`` with our ``submit`` (which only records the task) and
with ``num_workers=10**9`` so that *every* ready task is in flight; the one
blocking point, ``dask.local.queue_get``, is replaced by ``sim._queue_get``
which picks - by seeded policy - which recorded task completes next, runs it on
this thread, completes its Future and hands it to Dask's queue.

Real: graph construction, optimisation, start_state_from_dask / finish_task /
release_data bookkeeping, exception packing and re-raise, every task body.
Stub: the thread pool and its completion order.

Everything is single-threaded; nested ``get`` calls (tasks or library code
calling compute while a compute is running) get their own frame.
"""
import bisect
import functools
import heapq
import hashlib
from concurrent.futures import Future

import dask
import dask.local
import numpy as np
from dask.threaded import pack_exception
from dask._task_spec import DataNode as _DataNode, Task as _Task

POLICIES = ("uniform", "dfs", "bfs", "reverse", "window", "straggler", "prefer")


class InjectedFault(MemoryError):
    """The injected task failure (what an OOM-killed chunk looks like)."""


class StepCap(Exception):
    pass


class ReplayDivergence(Exception):
    pass


def sort_key(key):
    if isinstance(key, tuple):
        return tuple((0, k, "") if isinstance(k, (int, np.integer)) else (1, 0, str(k)) for k in key)
    return ((1, 0, str(key)),)


def key_str(key):
    if isinstance(key, tuple):
        return "(" + ",".join(str(k) for k in key) + ")"
    return str(key)


def key_family(key):
    """Name of the key without its token/indices: 'slope-overlap' style label."""
    k = key[0] if isinstance(key, tuple) else key
    s = str(k)
    parts = s.rsplit("-", 1)
    if len(parts) == 2 and len(parts[1]) >= 8 and all(c in "0123456789abcdef" for c in parts[1]):
        return parts[0]
    return s


class _Pending:
    __slots__ = ("key", "skey", "kstr", "fut", "fn", "args", "gen", "seq", "straggle", "seen")

    def __init__(self, key, fut, fn, args, gen, seq):
        self.key = key
        self.skey = sort_key(key)
        self.kstr = key_str(key)
        self.fut = fut
        self.fn = fn
        self.args = args
        self.gen = gen
        self.seq = seq
        self.straggle = False
        self.seen = False


def _skey_of(p):
    return p.skey


class _Frame:
    def __init__(self, depth):
        self.depth = depth
        self.pending = []
        self.gen = 0
        self.running = []      # window policy
        self.n_straggle = 0
        self.steps = 0


def _walk_arrays(obj, depth=2, prefix=""):
    """Yield (path, ndarray) for arrays reachable from obj: containers, and the *definition*
    of Dask tasks (args, kwargs, functools.partial payloads, nested sub-graphs) - an array bound
    into the function every block runs is shared by all of those tasks."""
    if isinstance(obj, np.ndarray):
        yield prefix, obj
    elif depth > 0:
        if isinstance(obj, dict):
            for k, v in obj.items():
                yield from _walk_arrays(v, depth - 1, prefix + "/" + key_str(k))
        elif isinstance(obj, (list, tuple)):
            for i, v in enumerate(obj):
                yield from _walk_arrays(v, depth - 1, prefix + "/%d" % i)
        elif isinstance(obj, _Task):
            yield from _walk_arrays(obj.func, depth - 1, prefix + "/func")
            yield from _walk_arrays(list(obj.args), depth - 1, prefix + "/args")
            if obj.kwargs:
                yield from _walk_arrays(dict(obj.kwargs), depth - 1, prefix + "/kwargs")
        elif isinstance(obj, _DataNode):
            yield from _walk_arrays(obj.value, depth - 1, prefix + "/value")
        elif isinstance(obj, functools.partial):
            yield from _walk_arrays(obj.func, depth - 1, prefix + "/pfunc")
            yield from _walk_arrays(list(obj.args), depth - 1, prefix + "/pargs")
            if obj.keywords:
                yield from _walk_arrays(dict(obj.keywords), depth - 1, prefix + "/pkw")


def embedded_arrays(darr):
    """The ndarrays a Dask array carries in its graph.  With this Dask, da.from_array(ndarray)
    copies each chunk into the graph, so these - not the ndarray it was built from - are the
    caller-owned memory of a Dask-backed raster."""
    out = []
    try:
        for k, v in dict(darr.__dask_graph__()).items():
            if isinstance(v, _DataNode):
                v = v.value
            if isinstance(v, np.ndarray):
                out.append((key_str(k), v))
    except Exception:
        pass
    return out


def _digest(a):
    if a.dtype == object:
        return ("obj", a.shape)
    try:
        return hashlib.blake2b(np.ascontiguousarray(a).view(np.uint8).tobytes() if a.size else b"",
                               digest_size=8).digest() + repr((a.dtype.str, a.shape)).encode()
    except Exception:
        return ("undigestable", a.shape)


class SimScheduler:
    """One instance = one simulated "cluster session" (any number of computes)."""

    def __init__(self, rng, policy="uniform", policy_arg=None, faults=(), replay=None,
                 step_cap=60000, m1=False, watch=None, reexec_rate=0.0, log_limit=200000):
        self.rng = rng
        self.policy = policy
        self.policy_arg = policy_arg
        self.faults = [dict(f) for f in faults]
        self.replay = list(replay) if replay is not None else None
        self.replay_pos = 0
        self.replay_mismatch = 0
        self.step_cap = step_cap
        self.m1 = m1
        self.watch = list(watch or [])       # [(name, ndarray)] caller-owned buffers
        self._watch_base = [(n, _digest(a)) for n, a in self.watch]
        self.reexec_rate = reexec_rate
        self.frames = []
        self.step = 0
        self.n_gets = 0
        self.max_depth = 0
        self.log = []                        # [depth, kstr, idx, poolsize]
        self.log_limit = log_limit
        self.fired = []                      # faults that fired
        self.mutations = []                  # M1: (step, task key, path)
        self.watch_hits = []                 # M2: (step, task key, buffer name)
        self.reexec_diffs = []               # probe only
        self.rng_tasks = []                  # tasks that changed numpy's global RNG state (probe)
        self.families = {}
        self.max_pool = 0
        self.choice_points = 0               # decisions with >1 option
        self._seq = 0

    # ------------------------------------------------------------------ seam
    def get(self, dsk, keys, **kwargs):
        kwargs.pop("num_workers", None)
        kwargs.pop("pool", None)
        kwargs.pop("chunksize", None)
        cache = kwargs.pop("cache", None)
        frame = _Frame(len(self.frames))
        self.frames.append(frame)
        self.n_gets += 1
        self.max_depth = max(self.max_depth, len(self.frames))
        prev = dask.local.queue_get
        dask.local.queue_get = self._queue_get
        try:
            return dask.local.get_async(
                self._submit, 10 ** 9, dsk, keys, cache=cache,
                get_id=_get_id, pack_exception=pack_exception, chunksize=1, **kwargs)
        finally:
            dask.local.queue_get = prev
            self.frames.pop()

    def _submit(self, fn, args):
        frame = self.frames[-1]
        fut = Future()
        self._seq += 1
        bisect.insort(frame.pending, _Pending(args[0][0], fut, fn, args, frame.gen, self._seq),
                      key=_skey_of)
        return fut

    # -------------------------------------------------------------- policies
    def _choose(self, pool, frame):
        n = len(pool)
        if self.replay is not None:
            return self._choose_replay(pool, frame)
        if n == 1:
            return 0
        p = self.policy
        if p == "uniform":
            return self.rng.randrange(n)
        if p == "dfs":
            g = max(x.gen for x in pool)
            return next(i for i, x in enumerate(pool) if x.gen == g)
        if p == "bfs":
            g = min(x.gen for x in pool)
            return next(i for i, x in enumerate(pool) if x.gen == g)
        if p == "reverse":
            return n - 1
        if p == "window":
            w = int(self.policy_arg or 4)
            live = {id(x) for x in pool}
            frame.running = [x for x in frame.running if id(x) in live]
            if len(frame.running) < w:
                run_ids = {id(x) for x in frame.running}
                need = w - len(frame.running)
                rest = heapq.nsmallest(need, (x for x in pool if id(x) not in run_ids),
                                       key=lambda x: (-x.gen, x.skey))
                frame.running.extend(rest)
            pick = frame.running[self.rng.randrange(len(frame.running))]
            frame.running.remove(pick)
            return pool.index(pick)
        if p == "straggler":
            k, prob = self.policy_arg or (3, 0.15)
            for x in pool:
                if not x.seen:
                    x.seen = True
                    if frame.n_straggle < k and self.rng.random() < prob:
                        x.straggle = True
                        frame.n_straggle += 1
            fast = [i for i, x in enumerate(pool) if not x.straggle]
            cand = fast or list(range(n))
            return cand[self.rng.randrange(len(cand))]
        if p == "prefer":
            # targeted follow-up after monitor M1: run the tasks that were seen mutating an
            # argument as early as possible ("first") or starve them ("last"); uniform otherwise
            keys = self.policy_arg["keys"]
            hot = [i for i, x in enumerate(pool) if x.kstr in keys]
            if self.policy_arg.get("mode") == "first":
                cand = hot or list(range(n))
            else:
                cold = [i for i in range(n) if pool[i].kstr not in keys]
                cand = cold or list(range(n))
            return cand[self.rng.randrange(len(cand))]
        raise ValueError("unknown policy %r" % (p,))

    def _choose_replay(self, pool, frame):
        if self.replay_pos >= len(self.replay):
            # schedule exhausted (e.g. minimised prefix): continue dfs-like
            self.replay_mismatch += 1
            g = max(x.gen for x in pool)
            return next(i for i, x in enumerate(pool) if x.gen == g)
        depth, kstr, idx = self.replay[self.replay_pos][:3]
        self.replay_pos += 1
        for i, x in enumerate(pool):
            if x.kstr == kstr:
                return i
        self.replay_mismatch += 1
        if isinstance(idx, int) and 0 <= idx < len(pool):
            return idx
        return 0

    # -------------------------------------------------------- the event loop
    def _queue_get(self, q):
        if not q.empty():
            return q.get_nowait()
        frame = self.frames[-1]
        if not frame.pending:
            raise RuntimeError("graphsim: scheduler waits but nothing is in flight")
        if self.step >= self.step_cap:
            raise StepCap(self.step)
        pool = frame.pending            # kept sorted by canonical key (insort in _submit)
        n = len(pool)
        i = self._choose(pool, frame)
        p = pool.pop(i)
        frame.gen += 1
        frame.steps += 1
        step = self.step
        self.step += 1
        if n > 1:
            self.choice_points += 1
        if n > self.max_pool:
            self.max_pool = n
        if len(self.log) < self.log_limit:
            self.log.append([frame.depth, p.kstr, i, n])
        fam = key_family(p.key)
        self.families[fam] = self.families.get(fam, 0) + 1

        fault = None
        for f in self.faults:
            if not f.get("fired") and f.get("step") == step:
                fault = f
                break

        if fault is not None and fault["kind"] == "abort_before":
            fault["fired"] = True
            self.fired.append({"kind": "abort_before", "step": step, "key": p.kstr})
            result = self._failed(p)
        else:
            result = self._run(p, step)
            if fault is not None and fault["kind"] == "abort_after":
                fault["fired"] = True
                self.fired.append({"kind": "abort_after", "step": step, "key": p.kstr})
                result = self._failed(p)
        p.fut.set_result(result)
        return q.get_nowait()

    def _failed(self, p):
        out = []
        for a in p.args:
            key, _info, dumps = a[0], a[1], a[2]
            out.append((key, pack_exception(InjectedFault("injected task failure at %s" % key_str(key)), dumps), True))
        return out

    def _run(self, p, step):
        before = None
        rng0 = None
        if self.m1:
            before = [(path, arr, _digest(arr)) for path, arr in _walk_arrays(p.args[0][1], 7)]
            rng0 = _rng_digest()
        result = p.fn(p.args)
        if rng0 is not None and _rng_digest() != rng0:
            # process-global state touched inside a task: concurrent tasks would interleave on it
            self.rng_tasks.append(p.kstr)
        if self.reexec_rate and self.rng.random() < self.reexec_rate:
            # probe only: at-least-once execution with the same argument objects
            again = p.fn(p.args)
            self.fired.append({"kind": "reexec", "step": step, "key": p.kstr})
            try:
                if not _same_result(result, again):
                    self.reexec_diffs.append({"step": step, "key": p.kstr})
            except Exception:
                pass
            result = again
        if before is not None:
            for path, arr, d in before:
                if _digest(arr) != d:
                    self.mutations.append({"step": step, "key": p.kstr, "arg": path,
                                           "in_task_definition": "/func" in path or "/args" in path or "/kwargs" in path,
                                           "obj": id(arr)})
        if self.watch:
            for (name, arr), (_, d0) in zip(self.watch, self._watch_base):
                if _digest(arr) != d0 and not any(h["buffer"] == name for h in self.watch_hits):
                    self.watch_hits.append({"step": step, "key": p.kstr, "buffer": name})
        return result

    # ------------------------------------------------------------- reporting
    def schedule(self):
        return [list(x[:3]) for x in self.log]

    def schedule_digest(self):
        h = hashlib.sha256()
        for d, k, i, n in self.log:
            h.update(("%d|%s|%d|%d;" % (d, k, i, n)).encode())
        return h.hexdigest()[:16]

    def choice_digest(self):
        """Digest that ignores key names (stable across hash seeds)."""
        h = hashlib.sha256()
        for d, k, i, n in self.log:
            h.update(("%d|%d|%d;" % (d, i, n)).encode())
        return h.hexdigest()[:16]

    def stats(self):
        return {"steps": self.step, "gets": self.n_gets, "max_depth": self.max_depth,
                "max_pool": self.max_pool, "choice_points": self.choice_points,
                "fired": list(self.fired), "mutations": len(self.mutations),
                "watch_hits": list(self.watch_hits), "reexec_diffs": len(self.reexec_diffs),
                "replay_mismatch": self.replay_mismatch}


def _rng_digest():
    st = np.random.get_state()
    return (st[2], hash(st[1][:16].tobytes()))


def _get_id():
    return 0


def _same_result(a, b):
    (ka, ra, fa), (kb, rb, fb) = a[0], b[0]
    if fa or fb:
        return fa == fb
    va, vb = ra[0], rb[0]
    if isinstance(va, np.ndarray) and isinstance(vb, np.ndarray):
        return va.shape == vb.shape and np.array_equal(va, vb, equal_nan=va.dtype.kind in "fc")
    return True


class under:
    """with under(sim): ... - every compute in the block runs on the simulator."""

    def __init__(self, sim):
        self.sim = sim
        self._cm = None

    def __enter__(self):
        self._cm = dask.config.set(scheduler=self.sim.get)
        self._cm.__enter__()
        return self.sim

    def __exit__(self, *exc):
        return self._cm.__exit__(*exc)


def draw_policy(rng):
    """Swarm choice of a schedule policy (DESIGN 2.2)."""
    r = rng.random()
    if r < 0.40:
        return "uniform", None
    if r < 0.50:
        return "dfs", None
    if r < 0.58:
        return "bfs", None
    if r < 0.64:
        return "reverse", None
    if r < 0.86:
        return "window", rng.choice([2, 3, 4, 8, 16])
    return "straggler", (rng.choice([1, 2, 3, 5]), rng.choice([0.05, 0.15, 0.4]))

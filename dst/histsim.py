"""histsim - seeded call histories with fault ops, run in a child forked from a
zygote that imported xrspatial and never called it (DESIGN 2.7).

This module is the *child side*: build the pool, run the ops of one history,
check C10 invariants after every step and compare every result with the
fresh-interpreter reference (C11).
"""
import copy
import hashlib
import random
import sys
import traceback
import warnings

import numpy as np

from . import determinism, util
from .cases import OPS, is_lazy
from .graphsim import InjectedFault, SimScheduler, embedded_arrays, under

SENTINEL = 123


# --------------------------------------------------------------------------
# building pool rasters (dtype x layout)
# --------------------------------------------------------------------------

class PoolRaster:
    """One caller-owned raster: the DataArray handed to the library plus the
    buffers behind it and the pristine specification."""

    def __init__(self, rid, spec, backend="numpy", chunks=None):
        import dask.array as da
        import xarray as xr
        self.rid = rid
        self.spec = spec
        self.backend = backend
        data = np.array(spec["data"], copy=True)
        layout = spec.get("layout", "C")
        if layout == "F":
            arr = np.asfortranarray(data)
            base = arr
        elif layout == "strided":
            base = np.zeros(tuple(2 * s for s in data.shape), dtype=data.dtype)
            arr = base[tuple(slice(None, None, 2) for _ in data.shape)]
            arr[...] = data
        elif layout == "readonly":
            arr = np.ascontiguousarray(data)
            arr.setflags(write=False)
            base = arr
        else:
            arr = np.ascontiguousarray(data)
            base = arr
        self.base = base
        self.arr = arr
        self.base_digest = _buf_digest(base)
        if backend == "dask":
            ch = chunks or tuple((s,) for s in data.shape)
            ch = tuple(tuple(int(c) for c in ax) for ax in ch)
            payload = da.from_array(arr, chunks=ch)
            # the chunk arrays the graph carries are the caller-owned memory of a Dask raster
            self.embedded = embedded_arrays(payload)
            self.embedded_digest = [_buf_digest(a) for _, a in self.embedded]
        else:
            payload = arr
            self.embedded = []
            self.embedded_digest = []
        coords = {k: (k, np.array(v, copy=True)) for k, v in spec.get("coords", {}).items()}
        for k, v in spec.get("scalar_coords", {}).items():
            coords[k] = v
        for k, v in spec.get("coords2d", {}).items():
            coords[k] = (tuple(spec["dims"][-2:]), np.array(v, copy=True))
        self.da = xr.DataArray(payload, dims=tuple(spec["dims"]), coords=coords,
                               attrs=copy.deepcopy(spec.get("attrs", {})), name=spec.get("name"))
        self.meta_digest = meta_digest(self.da)

    # ---- C10: what must not change
    def problems(self, allow_widen=False, allow_inplace=False):
        """List of (what, detail) for everything that differs from the spec."""
        out = []
        import dask.array as da
        cur = self.da
        spec = self.spec
        d = cur.data
        if isinstance(d, da.Array):
            if self.backend != "dask":
                out.append(("backend_changed", "numpy -> dask"))
        else:
            if self.backend == "dask":
                out.append(("backend_changed", "dask -> numpy"))
        want = np.asarray(spec["data"])
        if not allow_inplace:
            for (kname, a), d0 in zip(self.embedded, self.embedded_digest):
                if _buf_digest(a) != d0:
                    out.append(("values_modified", {"dask_chunk_in_graph": kname}))
                    break
            if _buf_digest(self.base) != self.base_digest:
                idx = util.first_diff(self.arr if self.arr.shape == want.shape else self.base, want) \
                    if self.arr.shape == want.shape else None
                out.append(("values_modified", idx))
            if not isinstance(d, da.Array):
                got = np.asarray(d)
                if got.dtype != want.dtype:
                    same_vals = got.shape == want.shape and util.same_bits(got.astype(np.float64), want.astype(np.float64))
                    if not (allow_widen and same_vals and got.dtype == np.float64):
                        out.append(("dtype_changed", "%s -> %s" % (want.dtype, got.dtype)))
                    elif not same_vals:
                        out.append(("values_modified", util.first_diff(got, want)))
                elif not util.same_bits(got, want):
                    out.append(("values_modified", util.first_diff(got, want)))
            elif d.dtype != want.dtype:
                out.append(("dtype_changed", "%s -> %s" % (want.dtype, d.dtype)))
        md = meta_digest(cur)
        if md != self.meta_digest:
            out.append(("metadata_modified", meta_diff(cur, spec)))
        return out


def _buf_digest(a):
    return hashlib.blake2b(np.ascontiguousarray(a).tobytes(), digest_size=12).hexdigest() + str(a.dtype) + str(a.shape)


def _canon_attr(v):
    try:
        return util.canon(v)
    except TypeError:
        if isinstance(v, dict):
            return "{" + ",".join("%r:%s" % (k, _canon_attr(x)) for k, x in sorted(v.items(), key=lambda kv: repr(kv[0]))) + "}"
        if isinstance(v, (list, tuple)):
            return type(v).__name__ + "[" + ",".join(_canon_attr(x) for x in v) + "]"
        return repr(v)


def meta_digest(da_):
    h = hashlib.sha256()
    h.update(repr(tuple(da_.dims)).encode())
    h.update(repr(da_.name).encode())
    for k in sorted(da_.coords, key=str):
        c = da_.coords[k]
        h.update(str(k).encode())
        h.update(repr(tuple(c.dims)).encode())
        v = np.asarray(c.values)
        h.update(str(v.dtype).encode())
        h.update(np.ascontiguousarray(v).tobytes())
    h.update(_canon_attr(dict(da_.attrs)).encode())
    return h.hexdigest()[:20]


def meta_diff(cur, spec):
    out = {}
    if list(cur.dims) != list(spec["dims"]):
        out["dims"] = [list(cur.dims), list(spec["dims"])]
    if cur.name != spec.get("name"):
        out["name"] = [repr(cur.name), repr(spec.get("name"))]
    want_coords = set(spec.get("coords", {})) | set(spec.get("scalar_coords", {})) | set(spec.get("coords2d", {}))
    if set(map(str, cur.coords)) != set(map(str, want_coords)):
        out["coord_names"] = [sorted(map(str, cur.coords)), sorted(map(str, want_coords))]
    for k, v in spec.get("coords", {}).items():
        if k in cur.coords and not util.same_bits(np.asarray(cur.coords[k].values), np.asarray(v)):
            out["coord_" + k] = "values differ"
    if _canon_attr(dict(cur.attrs)) != _canon_attr(spec.get("attrs", {})):
        out["attrs"] = [_canon_attr(dict(cur.attrs))[:300], _canon_attr(spec.get("attrs", {}))[:300]]
    return out


# --------------------------------------------------------------------------
# canonical results
# --------------------------------------------------------------------------

_DASK_KEY = __import__("re").compile(r"^.+-[0-9a-f]{32}$")


def _canon_name(name):
    """The library's own names ('slope', 'mean', ...) are part of a result.  When a function passes
    no name, xarray falls back to the Dask array's key ('_process_numpy-<token>'): an opaque graph
    identifier, not a result (it changes with anything that changes the graph's construction)."""
    if isinstance(name, str) and _DASK_KEY.match(name):
        return "<dask-key>"
    return repr(name)


def canon_result(out):
    """Backend-independent, comparable, picklable description of a result."""
    import dask.array as da
    import pandas as pd
    import xarray as xr
    if isinstance(out, xr.Dataset):
        return {"kind": "dataset", "vars": {str(k): canon_result(v) for k, v in out.data_vars.items()}}
    if isinstance(out, xr.DataArray):
        d = out.data
        lazy = isinstance(d, da.Array)
        vals = np.asarray(d.compute() if lazy else d)
        return {"kind": "dataarray", "lazy": lazy, "data": vals, "dims": [str(x) for x in out.dims],
                "coords": {str(k): np.asarray(out.coords[k].values) for k in out.coords},
                "attrs": _canon_attr(dict(out.attrs)), "name": _canon_name(out.name)}
    if isinstance(out, pd.DataFrame):
        return {"kind": "table", "columns": [repr(c) for c in out.columns],
                "values": out.to_numpy(dtype=float, na_value=np.nan)}
    if hasattr(out, "compute") and hasattr(out, "columns"):
        df = out.compute()
        r = canon_result(df.reset_index(drop=True))
        r["lazy"] = True
        return r
    if isinstance(out, tuple):
        return {"kind": "tuple", "items": [canon_result(x) for x in out]}
    if isinstance(out, list):
        return {"kind": "list", "items": [canon_result(x) for x in out]}
    if isinstance(out, np.ndarray):
        return {"kind": "ndarray", "data": out}
    if out is None or isinstance(out, (int, float, str, bool, np.integer, np.floating)):
        return {"kind": "scalar", "repr": repr(out)}
    return {"kind": "other", "repr": repr(type(out))}


def result_digest(c):
    h = hashlib.sha256()

    def walk(o):
        if isinstance(o, dict):
            for k in sorted(o):
                h.update(str(k).encode())
                walk(o[k])
        elif isinstance(o, (list, tuple)):
            h.update(b"[")
            for x in o:
                walk(x)
            h.update(b"]")
        elif isinstance(o, np.ndarray):
            h.update(str(o.dtype).encode())
            h.update(repr(o.shape).encode())
            if o.dtype.kind == "f":
                # NaN payload / sign of NaN are not part of a result
                o = np.where(np.isnan(o), np.nan, o)
            h.update(np.ascontiguousarray(o).tobytes())
        else:
            h.update(repr(o).encode())
    walk(c)
    return h.hexdigest()[:20]


def result_diff(a, b, path=""):
    """First difference between two canonical results (for the report)."""
    if type(a) is not type(b):
        return {"path": path, "got_type": type(a).__name__, "want_type": type(b).__name__}
    if isinstance(a, dict):
        if set(a) != set(b):
            return {"path": path, "got_keys": sorted(a), "want_keys": sorted(b)}
        for k in sorted(a):
            d = result_diff(a[k], b[k], path + "/" + str(k))
            if d:
                return d
        return None
    if isinstance(a, (list, tuple)):
        if len(a) != len(b):
            return {"path": path, "got_len": len(a), "want_len": len(b)}
        for i, (x, y) in enumerate(zip(a, b)):
            d = result_diff(x, y, path + "/%d" % i)
            if d:
                return d
        return None
    if isinstance(a, np.ndarray):
        if a.dtype != b.dtype:
            return {"path": path, "got_dtype": str(a.dtype), "want_dtype": str(b.dtype)}
        d = util.first_diff(a, b) if a.dtype.kind in "fiub" else (None if np.array_equal(a, b) else {"differs": True})
        if d:
            d["path"] = path
        return d
    if a != b:
        return {"path": path, "got": repr(a)[:200], "want": repr(b)[:200]}
    return None


# --------------------------------------------------------------------------
# one call
# --------------------------------------------------------------------------

class CallOutcome:
    def __init__(self):
        self.out = None
        self.exc = None
        self.canon = None
        self.digest = None
        self.sim = None


def _arrays_of(out):
    """(label, ndarray) of the buffers a result hands to the caller."""
    import dask.array as da
    import xarray as xr
    if isinstance(out, xr.Dataset):
        for k, v in out.data_vars.items():
            if isinstance(v.data, np.ndarray):
                yield str(k), v.data
    elif isinstance(out, xr.DataArray):
        if isinstance(out.data, np.ndarray):
            yield "data", out.data
    elif isinstance(out, np.ndarray):
        yield "array", out
    elif isinstance(out, (tuple, list)):
        for i, x in enumerate(out):
            for lab, a in _arrays_of(x):
                yield "%d/%s" % (i, lab), a


def run_call(entry, rasters, sched_seed=0, policy=("dfs", None)):
    """Perform the public call (under graphsim when Dask-backed)."""
    o = CallOutcome()
    args = [r.da for r in rasters]
    with warnings.catch_warnings():
        warnings.simplefilter("ignore")
        with np.errstate(all="ignore"):
            try:
                if entry["backend"] == "dask":
                    determinism.reseed(util.derive_seed(sched_seed, "uuid"))
                    sim = SimScheduler(random.Random(util.derive_seed(sched_seed, "sched")),
                                       policy=policy[0], policy_arg=policy[1],
                                       watch=[(r.rid, r.base) for r in rasters]
                                       + [(r.rid, a) for r in rasters for _, a in r.embedded])
                    o.sim = sim
                    with under(sim):
                        o.out = OPS[entry["op"]](args, entry["params"])
                        o.lazy = is_lazy(o.out) if o.out is not None else None
                        o.canon = canon_result(o.out)
                else:
                    o.out = OPS[entry["op"]](args, entry["params"])
                    o.canon = canon_result(o.out)
            except InjectedFault:
                raise
            except Exception as e:
                o.exc = e
                tb = traceback.extract_tb(e.__traceback__)
                where = ""
                for fr in reversed(tb):
                    if "/xrspatial/" in fr.filename:
                        where = "%s:%s" % (fr.filename.split("/xrspatial/")[-1], fr.name)
                        break
                o.canon = {"kind": "error", "type": type(e).__name__}
                o.exc_info = {"type": type(e).__name__, "msg": str(e)[:300], "where": where}
    o.digest = result_digest(o.canon)
    return o


# --------------------------------------------------------------------------
# C10 checks for one call
# --------------------------------------------------------------------------

OWN = ("own",)


def check_c10(entry, rasters, o, extra_pool=()):
    """Violations (list of dicts) of C10 for this call. `rasters` are the
    arguments; `extra_pool` every other live pool raster (must be untouched too)."""
    v = []
    ident = entry["identity"]
    inplace_rid = entry["rasters"][1] if ident == "inplace" else None
    # 1. nothing passed in was modified
    for r in rasters:
        probs = r.problems(allow_widen=(ident == "viewshed"), allow_inplace=(r.rid == inplace_rid))
        for what, detail in probs:
            item = {"class": "input_" + what, "raster": r.rid, "detail": detail}
            if o.sim is not None and o.sim.watch_hits:
                # monitor M2: the first simulated task after which the caller's buffer differed
                hit = [h for h in o.sim.watch_hits if h["buffer"] == r.rid]
                if hit:
                    item["first_writing_task"] = {"step": hit[0]["step"], "key": hit[0]["key"]}
            v.append(item)
    if o.exc is not None:
        msg = str(o.exc).lower()
        if "read-only" in msg or "readonly" in msg or "read only" in msg:
            v.append({"class": "writes_to_readonly_input", "exc": o.exc_info})
        return v
    # 2. no shared writable memory; scribbling on the output does not show through
    for lab, arr in _arrays_of(o.out):
        for r in rasters:
            shares = bool(np.shares_memory(arr, r.base))
            if ident == "window":
                continue
            if ident == "inplace" and r.rid == inplace_rid:
                continue
            if shares and arr.flags.writeable:
                v.append({"class": "output_aliases_input", "raster": r.rid, "output": lab})
    if ident == "window":
        src = rasters[-1] if entry["op"] == "crop" else rasters[0]
        for lab, arr in _arrays_of(o.out):
            if arr.size and not np.shares_memory(arr, src.base):
                pass  # a copy would also be acceptable for the no-modification clause
    # scribble test
    if ident not in ("window", "inplace"):
        clean = not v
        for lab, arr in _arrays_of(o.out):
            if arr.flags.writeable and arr.size:
                try:
                    arr[...] = SENTINEL
                except Exception:
                    pass
        if clean:
            for r in rasters:
                if r.problems(allow_widen=(ident == "viewshed")):
                    v.append({"class": "write_to_output_changes_input", "raster": r.rid})
    # 3. identity of the raster
    if ident in ("same", "hotspots", "viewshed"):
        import dask.array as da
        import xarray as xr
        src = rasters[0]
        out = o.out
        spec = src.spec
        if not isinstance(out, xr.DataArray):
            v.append({"class": "identity_not_a_dataarray", "type": type(out).__name__})
            return v
        want_shape = tuple(np.asarray(spec["data"]).shape)
        if tuple(out.shape) != want_shape:
            v.append({"class": "identity_shape", "got": list(out.shape), "want": list(want_shape)})
        if list(out.dims) != list(spec["dims"]):
            v.append({"class": "identity_dims", "got": list(out.dims), "want": list(spec["dims"])})
        want_names = set(spec.get("coords", {})) | set(spec.get("scalar_coords", {})) | set(spec.get("coords2d", {}))
        got_names = set(map(str, out.coords))
        if got_names != want_names:
            v.append({"class": "identity_coords", "missing": sorted(want_names - got_names),
                      "extra": sorted(got_names - want_names)})
        else:
            for k, val in spec.get("coords", {}).items():
                if not util.same_bits(np.asarray(out.coords[k].values), np.asarray(val)):
                    v.append({"class": "identity_coords", "coord": k, "detail": "values differ"})
            for k, val in spec.get("scalar_coords", {}).items():
                if np.asarray(out.coords[k].values).shape != () or out.coords[k].values != val:
                    v.append({"class": "identity_coords", "coord": k, "detail": "scalar coordinate differs"})
            for k, val in spec.get("coords2d", {}).items():
                if not util.same_bits(np.asarray(out.coords[k].values), np.asarray(val)):
                    v.append({"class": "identity_coords", "coord": k, "detail": "2-D coordinate differs"})
            if not v:
                # the output's coordinates are the caller's to edit: writing into a non-index coordinate of
                # the result (scalar or 2-D; index coordinates are immutable) must not show in the input
                wrote = False
                for k in list(out.coords):
                    if k in out.dims:
                        continue
                    try:
                        arr = out.coords[k].variable._data
                        if isinstance(arr, np.ndarray) and arr.flags.writeable:
                            arr[...] = SENTINEL
                            wrote = True
                    except Exception:
                        pass
                if wrote and src.problems(allow_widen=(ident == "viewshed")):
                    v.append({"class": "write_to_output_coords_changes_input", "raster": src.rid})
        want_attrs = copy.deepcopy(spec.get("attrs", {}))
        if ident == "hotspots":
            want_attrs["unit"] = "%"
        if _canon_attr(dict(out.attrs)) != _canon_attr(want_attrs):
            v.append({"class": "identity_attrs", "got": _canon_attr(dict(out.attrs))[:300],
                      "want": _canon_attr(want_attrs)[:300]})
        else:
            # attributes must be the caller's to keep: mutating the output's attrs
            # (top level) must not show in the input
            try:
                out.attrs["__scribble__"] = 1
                if "__scribble__" in src.da.attrs:
                    v.append({"class": "output_attrs_alias_input_attrs", "raster": src.rid})
                    del src.da.attrs["__scribble__"]
            except Exception:
                pass
        is_dask_out = isinstance(out.data, da.Array)
        if is_dask_out != (entry["backend"] == "dask"):
            v.append({"class": "identity_backend", "got": type(out.data).__name__, "want": entry["backend"]})
    return v

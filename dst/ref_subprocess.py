"""One reference call in a truly fresh interpreter (cross-check of the zygote assumption)."""
import json
import sys

from . import determinism

determinism.use_repo_tree()
determinism.install()


def main():
    prop, seed, tier = sys.argv[1], int(sys.argv[2]), sys.argv[3]
    ids = [int(x) for x in sys.argv[4].split(",")]
    from . import hist_run, worker_hist
    cat = hist_run.catalogue(prop, seed, tier)
    # exactly one call per process: a fresh interpreter for each id is the caller's job
    eid = ids[0]
    val = worker_hist.do_reference(cat, eid)
    print(json.dumps({"entry": eid, "digest": val["digest"], "kind": val["kind"]}))


if __name__ == "__main__":
    main()

"""Orchestration of the history engine: references (C11), histories, evidence, replay."""
import collections
import json
import os
import pickle
import shutil
import tempfile
import time

from . import findings, hist_run, orchestrator, util
from .main import NWORKERS, REAL_STUB, budget_for, merge_counters, replay_dir, write_evidence

VERIF = orchestrator.VERIF


def _argv(pid, phase, seed, tier, w, budget, scratch, info, runs=None, extra=()):
    a = [pid, phase, "--seed", seed, "--tier", tier, "--worker", w, "--nworkers", NWORKERS,
         "--budget", budget, "--scratch", scratch, "--outdir", replay_dir(),
         "--info", json.dumps(info)] + list(extra)
    if runs is not None:
        a += ["--runs", runs]
    return a


def references(pid, seed, tier, scratch, info, wall):
    res = orchestrator.run_workers(
        "dst.worker_hist", [_argv(pid, "ref", seed, tier, w, 0, scratch, info) for w in range(NWORKERS)],
        wall_timeout=wall)
    errs = orchestrator.harness_errors(res)
    refs = {}
    unexpected = []
    for r in res:
        for m in r.msgs:
            if m.get("t") == "ref":
                refs[str(m["entry"])] = {"digest": m["digest"], "kind": m["kind"], "exc": m.get("exc")}
            elif m.get("t") == "summary":
                unexpected.extend(m.get("unexpected", []))
    with open(os.path.join(scratch, "refs.json"), "w") as f:
        json.dump(refs, f)
    return refs, unexpected, errs


def check(pid, tier, seed, runs):
    t0 = time.monotonic()
    budget = budget_for(pid, tier)
    info = orchestrator.repo_info()
    scratch = tempfile.mkdtemp(prefix="verif-%s-" % pid)
    try:
        return _check(pid, tier, seed, runs, budget, info, scratch, t0)
    finally:
        shutil.rmtree(scratch, ignore_errors=True)


def _check(pid, tier, seed, runs, budget, info, scratch, t0):
    cat = hist_run.catalogue(pid, seed, tier)
    errs = []
    refs, unexpected = {}, []
    ref_wall = 0.0
    if pid == "C11":
        refs, unexpected, errs = references(pid, seed, tier, scratch, info, wall=1500)
        ref_wall = time.monotonic() - t0
        if errs:
            for e in errs:
                print("HARNESS-ERROR " + e.replace("\n", " | ")[:2000])
            return 2
    crosscheck = {}
    if pid == "C11" and (tier == "thorough" or os.environ.get("VERIF_CROSSCHECK")):
        crosscheck = zygote_crosscheck(pid, seed, tier, cat, refs)
        if crosscheck.get("mismatch"):
            print("HARNESS-ERROR zygote references differ from true fresh-interpreter references: %s"
                  % json.dumps(crosscheck["mismatch"])[:800])
            return 2
    hist_budget = max(15.0, budget - ref_wall) if pid == "C11" and tier == "quick" else budget
    grace = 400 if tier == "quick" else 1200
    res = orchestrator.run_workers(
        "dst.worker_hist",
        [_argv(pid, "hist", seed, tier, w, hist_budget, scratch, info, runs) for w in range(NWORKERS)],
        wall_timeout=(hist_budget if runs is None else 7200) + grace)
    errs = orchestrator.harness_errors(res)
    summaries = [m for r in res for m in r.msgs if m.get("t") == "summary"]
    viols = [m for r in res for m in r.msgs if m.get("t") == "violation"]
    dups = [m for r in res for m in r.msgs if m.get("t") == "violation_dup"]
    agg = merge_counters([s["agg"] for s in summaries])
    notes = merge_counters([s.get("notes") for s in summaries])
    faults = merge_counters([s.get("faults") for s in summaries])
    known_hits = merge_counters([s.get("known_hits") for s in summaries])
    combos = sorted({c for s in summaries for c in s.get("combos", [])})
    known = {e["id"]: e for e in findings.load()}
    for fid, n in sorted(known_hits.items()):
        e = known.get(fid, {})
        print("KNOWN-FINDING: property=%s %s (%s; hit %d times this run)" % (pid, e.get("what", fid), fid, n))
    for k, n in sorted(notes.items()):
        print("NOTE %s count=%d" % (k, n))
    p5_now = parallel_dispatchers() if pid == "C11" else []
    if p5_now:
        print("NOTE probe=P5 dispatchers compiled with parallel=True: %s - the Numba worker-thread clause of C11 is "
              "not decidable by simulation; labelled real-thread differential follows" % p5_now)
    for u in unexpected:
        print("NOTE reference outcome differs from the catalogue's expectation: %s" % json.dumps(u)[:300])
    for v in viols:
        print("VIOLATION property=%s replay=%s" % (pid, v["replay"]))
        print("  op=%s class=%s detail=%s" % (v["signature"].get("op"), v["signature"].get("class"),
                                             json.dumps(v["violation"])[:500]))
    p5 = parallel_dispatchers()
    p5_info = {}
    if pid == "C11" and p5:
        tv, p5_info = numba_thread_differential(pid, seed, cat, p5, info)
        for path, v in tv:
            viols.append({"replay": path, "signature": {"op": v.get("op"), "class": v.get("class")}, "violation": v})
            print("VIOLATION property=%s replay=%s" % (pid, path))
            print("  real Numba worker threads (not simulation): %s" % json.dumps(v, default=str)[:500])
    wall = time.monotonic() - t0
    calls = int(agg.get("calls", 0))
    fam = merge_counters([s.get("by_family") for s in summaries])
    ev = {
        "property_id": pid, "tier": tier, "seed": int(seed), "level": "exploration",
        "coverage": {
            "evaluations": calls,
            "distinct_nontrivial": int(agg.get("pairs", 0)) if pid == "C11" else len(combos),
            "rule": (
                "one evaluation = one public call made at some position of a seeded call history inside a "
                "long-lived interpreter (child forked from a zygote that imported xrspatial and never called it), "
                "checked against the same call made alone in a fresh child (C11). Non-trivial and distinct = "
                "distinct ordered (previous call -> this call) pairs of different catalogue entries actually "
                "executed, summed over histories (a pair repeated inside one history counts once)."
                if pid == "C11" else
                "one evaluation = one public call in a seeded history over a persistent pool of caller-owned "
                "rasters; after every call every argument (and every other live pool raster) is compared with "
                "its pristine specification (values, dtype, coords, dims, name, attrs), outputs are probed for "
                "shared memory and scribbled on, and the identity clause is checked. Non-trivial and distinct = "
                "distinct (function, backend, dtype:layout of each argument) combinations actually executed."),
            "samples": [x for s in summaries for x in s.get("samples", [])][:3],
            "histories": int(agg.get("histories", 0)),
            "history_steps": int(agg.get("steps", 0)),
            "simulated_time_note": "there is no clock in the system; history steps (and task completions for Dask entries) are the only time",
            "interpreter_segments": int(agg.get("segments", 0)),
            "ordered_call_pairs": int(agg.get("pairs", 0)),
            "same_family_parameter_transitions": int(agg.get("param_transitions", 0)),
            "function_dtype_layout_combos": len(combos),
            "dask_calls_under_graphsim": int(agg.get("dask_calls", 0)),
            "graphsim_task_steps": int(agg.get("sim_steps", 0)),
            "calls_per_hour": int(calls / wall * 3600) if wall > 0 else 0,
            "histories_per_hour": int(agg.get("histories", 0) / wall * 3600) if wall > 0 else 0,
            "seed_note": "every history index h is its own derived seed sha256(VERIF_SEED, property, 'history', h); seeds/hour = histories/hour",
            "distinct_states_measure": "distinct ordered (previous entry -> this entry) call pairs (C11) / distinct (function, backend, dtype:layout...) combinations (C10) actually executed",
            "catalogue_entries": len(cat["entries"]),
            "pool_rasters": len(cat["pool"]),
            "references_computed": len(refs),
            "zygote_vs_fresh_subprocess_crosscheck": crosscheck,
            "reference_wall_s": round(ref_wall, 1),
            "by_family": fam,
            "faults_fired": faults,
            "probe_notes": notes,
            "reference_outcomes_unexpected": unexpected,
            "known_findings_hit": known_hits,
            "duplicate_violation_reports": len(dups),
            "parallel_dispatchers_P5": p5,
            "numba_real_thread_differential": p5_info,
            "numba_threads_clause": ("vacuous: 0 dispatchers compiled with parallel=True on the CPU path, so Numba "
                                     "runs every kernel on the calling thread") if not p5 else
                                    "parallel dispatchers present: thread-count clause NOT decided by simulation",
            "components": dict(REAL_STUB, stubbed=REAL_STUB["stubbed"] + [
                "'a fresh interpreter' = child forked from a zygote that imported xrspatial and called nothing",
                "the user: call sequence, scribbles on outputs, interrupts (thorough), restarts"]),
            "workers": NWORKERS,
            "repo": info,
            "harness_errors": errs,
        },
        "assumptions": [
            "fork-from-zygote equals a fresh interpreter right after `import xrspatial`",
            "Dask entries run on graphsim (atomic tasks, seeded completion order per occurrence)",
            "comparison is bit-for-bit on values, dtype, dims, coords, attrs and name of every result",
            "a clean batch is evidence about the explored histories, not proof",
        ],
        "wall_s": round(wall, 2),
        "violations": len(viols),
    }
    write_evidence(pid, ev)
    print("%s tier=%s seed=%s histories=%d calls=%d steps=%d pairs=%d combos=%d violations=%d known=%d wall=%.1fs (refs %.1fs)"
          % (pid, tier, seed, agg.get("histories", 0), calls, agg.get("steps", 0), agg.get("pairs", 0), len(combos),
             len(viols), sum(known_hits.values()), wall, ref_wall))
    if errs:
        for e in errs:
            print("HARNESS-ERROR " + e.replace("\n", " | ")[:2000])
    if viols:
        return 1
    if errs or calls == 0:
        return 2
    return 0


def numba_thread_differential(pid, seed, cat, p5, info):
    """P5 found parallel=True dispatchers: the simulator cannot schedule Numba's native worker
    threads, so run the labelled fallback (real threads, enlarged rasters, 1 vs 2/16 threads)."""
    from . import worker_hist
    from . import realthreads
    firsts = {}
    for e in cat["entries"]:
        if e["backend"] == "numpy" and not e.get("expect_error") and not e["private"] \
                and e["family"] not in ("viewshed", "local", "generators", "polygonize"):
            firsts.setdefault((e["op"], util.canon(e["params"])[:60]), e)
    # entries of the modules that host the parallel dispatchers first
    mods = {n.split(".")[1] for n in p5 if n.count(".") >= 2}

    def hosted(e):
        import inspect
        from .cases import OPS
        try:
            src = inspect.getsource(OPS[e["op"]])
        except Exception:
            src = ""
        return any(m in (e["family"], e["op"]) or m in src for m in mods)
    entries = sorted(firsts.values(), key=lambda e: (0 if hosted(e) else 1, e["id"]))[:60]
    val, err = worker_hist.in_child(lambda: realthreads.numba_threads_differential(cat, entries), timeout=1500)
    out_info = {"parallel_dispatchers": p5, "entries_tried": len(entries),
                "note": "observation of real Numba threads on enlarged rasters; not simulation; a clean result is not evidence"}
    if err:
        out_info["error"] = err[-400:]
        return [], out_info
    found, checked = val
    out_info["entries_checked"] = checked
    res = []
    os.makedirs(replay_dir(), exist_ok=True)
    for v, pool in found:
        e = v.pop("_entry", None) or next(x for x in cat["entries"] if x["id"] == v["entry"])
        path = os.path.join(replay_dir(), "%s-s%d-numba-threads-e%d.json" % (pid, seed, v["entry"]))
        util.dump_file(path, {"property": pid, "engine": "numba_threads", "entry": e, "pool": pool,
                              "violation": v, "info": info,
                              "note": "real Numba worker threads, not simulation; replay repeats the 1-vs-N thread comparison"})
        res.append((path, v))
    return res, out_info


def zygote_crosscheck(pid, seed, tier, cat, refs, n=16):
    """A seeded sample of entries re-run in true `python -m` subprocesses must give the
    digests the zygote children gave (the 'fork-from-zygote is a fresh interpreter' assumption)."""
    import subprocess
    import sys
    from concurrent.futures import ThreadPoolExecutor
    from . import determinism
    rng = util.rng_for(seed, "crosscheck", pid)
    ids = [e["id"] for e in cat["entries"] if e["family"] != "viewshed"]
    ids = sorted(rng.sample(ids, min(n, len(ids))))
    env = determinism.child_env()

    def one(eid):
        r = subprocess.run([sys.executable, "-m", "dst.ref_subprocess", pid, str(seed), tier, str(eid)],
                           capture_output=True, text=True, env=env, cwd=VERIF, timeout=1200)
        for line in r.stdout.splitlines():
            if line.startswith("{"):
                return eid, json.loads(line)["digest"]
        return eid, "ERROR:" + r.stderr[-300:]
    with ThreadPoolExecutor(max_workers=min(NWORKERS, len(ids))) as ex:
        got = dict(ex.map(one, ids))
    mismatch = [{"entry": i, "subprocess": got[i], "zygote": refs[str(i)]["digest"]} for i in ids
                if got[i] != refs[str(i)]["digest"]]
    return {"entries_checked": len(ids), "mismatch": mismatch}


def parallel_dispatchers():
    """P5: numba dispatchers in xrspatial compiled with parallel=True (static probe)."""
    import importlib
    import pkgutil
    import xrspatial
    out = []
    try:
        from numba.core.dispatcher import Dispatcher
    except Exception:
        return out
    for m in pkgutil.walk_packages(xrspatial.__path__, "xrspatial."):
        if ".tests" in m.name or "gpu_rtx" in m.name:
            continue
        try:
            mod = importlib.import_module(m.name)
        except Exception:
            continue
        for k, v in vars(mod).items():
            if isinstance(v, Dispatcher) and v.targetoptions.get("parallel"):
                out.append("%s.%s" % (m.name, k))
    return sorted(set(out))


def replay(path):
    rep = util.load_file(path)
    pid = rep["property"]
    if rep.get("engine") == "numba_threads":
        from . import realthreads, worker_hist
        cat = {"pool": rep["pool"], "entries": [rep["entry"]]}

        def job():
            # the entry and pool in the file are already enlarged: compare 1 thread against 2, 3, 4, 16
            return realthreads.numba_threads_differential(cat, [rep["entry"]], reps=10, variants=False)
        val, err = worker_hist.in_child(job, 1800)
        if err:
            print("HARNESS-ERROR " + err[-1000:])
            return 2
        found, _ = val
        if found:
            print("VIOLATION property=%s replay=%s" % (pid, path))
            print("  real Numba worker threads (not simulation): %s" % json.dumps(found[0][0], default=str)[:500])
            return 1
        print("replay (1 vs 2/16 Numba threads, 20 repetitions) did not reproduce; the recorded violation was probabilistic")
        return 0
    scratch = tempfile.mkdtemp(prefix="verif-replay-")
    try:
        cat = rep["catalogue"]
        hist = rep["history"]
        from . import worker_hist

        class A:
            prop = pid
            hist_timeout = 1800.0
        refs = {}
        if pid == "C11":
            for e in cat["entries"]:
                val, err = worker_hist.in_child(lambda: worker_hist.do_reference(cat, e["id"]), 900)
                if err:
                    print("HARNESS-ERROR reference: " + err[:1500])
                    return 2
                refs[str(e["id"])] = {"digest": val["digest"], "kind": val["kind"]}
        val, err = worker_hist.run_one_history(A, cat, hist, refs, max_violations=1)
        if err:
            print("HARNESS-ERROR " + err[:1500])
            return 2
        print("replay: ops=%d calls=%d segments=%d" % (len(hist["ops"]), val["calls"], val["segments"]))
        if val["violations"]:
            v = worker_hist.strip(val["violations"][0])
            same = v["class"] == rep["violation"]["class"]
            print("VIOLATION property=%s replay=%s" % (pid, path))
            print("  class=%s (recorded %s, %s) op=%s detail=%s" % (
                v["class"], rep["violation"]["class"], "same" if same else "DIFFERENT", v.get("op"),
                json.dumps(util.to_jsonable(v), default=str)[:600]))
            return 1
        print("replay did not reproduce a violation")
        return 0
    finally:
        shutil.rmtree(scratch, ignore_errors=True)

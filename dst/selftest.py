"""Self-tests of the machinery itself (DESIGN 2.3, 5)."""
import json
import os
import sys
import time

from . import determinism, orchestrator


def _graph_digests(pid, seed, runs, nworkers, hashseed, tier="quick"):
    argvs = [[pid, "--seed", seed, "--tier", tier, "--worker", w, "--nworkers", nworkers, "--runs", runs,
              "--outdir", "/tmp/verif-selftest-replays", "--max-violations", 0] for w in range(nworkers)]
    res = orchestrator.run_workers("dst.worker_graph", argvs, wall_timeout=1200,
                                   extra_env={"PYTHONHASHSEED": str(hashseed)})
    errs = orchestrator.harness_errors(res)
    if errs:
        raise RuntimeError("; ".join(errs))
    out = {}
    for r in res:
        for m in r.msgs:
            if m.get("t") == "summary":
                out[r.idx] = (m["trace_digest"], m["trace_digest_nokeys"], m["counts"].get("evaluations", 0))
    return out


def determinism_graph(pids, seeds, runs, nworkers=16):
    """Same seed twice in fresh interpreters, and under other PYTHONHASHSEEDs."""
    ok = True
    report = []
    for pid in pids:
        for seed in seeds:
            a = _graph_digests(pid, seed, runs, nworkers, 0)
            b = _graph_digests(pid, seed, runs, nworkers, 0)
            same = a == b
            ok &= same
            line = {"property": pid, "seed": seed, "runs": runs, "evaluations": sum(v[2] for v in a.values()),
                    "same_twice_hashseed0": same}
            for hs in (1, 4242):
                c = _graph_digests(pid, seed, runs, nworkers, hs)
                line["keys_equal_hashseed%d" % hs] = all(a[w][0] == c[w][0] for w in a)
                nk = all(a[w][1] == c[w][1] for w in a)
                line["choices_results_equal_hashseed%d" % hs] = nk
                if pid != "C03":
                    ok &= nk
            report.append(line)
            print("selftest determinism", json.dumps(line))
    return ok, report


def _hist_traces(pid, seed, runs, hashseed, tier="quick"):
    import shutil
    import tempfile
    from . import hist_main
    scratch = tempfile.mkdtemp(prefix="verif-selftest-")
    try:
        env = {"PYTHONHASHSEED": str(hashseed), "VERIF_REPLAY_DIR": os.path.join(scratch, "replays")}
        if pid == "C11":
            res = orchestrator.run_workers(
                "dst.worker_hist", [hist_main._argv(pid, "ref", seed, tier, w, 0, scratch, {}) for w in range(hist_main.NWORKERS)],
                wall_timeout=1500, extra_env=env)
            errs = orchestrator.harness_errors(res)
            if errs:
                raise RuntimeError("; ".join(errs))
            refs = {str(m["entry"]): {"digest": m["digest"], "kind": m["kind"]} for r in res for m in r.msgs if m.get("t") == "ref"}
            with open(os.path.join(scratch, "refs.json"), "w") as f:
                json.dump(refs, f)
        res = orchestrator.run_workers(
            "dst.worker_hist", [hist_main._argv(pid, "hist", seed, tier, w, 0, scratch, {}, runs, ["--max-violations", 0])
                                for w in range(hist_main.NWORKERS)], wall_timeout=3000, extra_env=env)
        errs = orchestrator.harness_errors(res)
        if errs:
            raise RuntimeError("; ".join(errs))
        out = {}
        calls = 0
        for r in res:
            for m in r.msgs:
                if m.get("t") == "summary":
                    calls += m["agg"]["calls"]
                    for h, tr in m["traces"]:
                        out[h] = tr
        return out, calls
    finally:
        shutil.rmtree(scratch, ignore_errors=True)


def determinism_hist(pids, seeds, runs):
    ok = True
    report = []
    for pid in pids:
        for seed in seeds:
            a, calls = _hist_traces(pid, seed, runs, 0)
            b, _ = _hist_traces(pid, seed, runs, 0)
            c, _ = _hist_traces(pid, seed, runs, 4242)
            line = {"property": pid, "seed": seed, "histories": len(a), "calls": calls,
                    "same_twice_hashseed0": a == b, "same_under_hashseed4242": a == c}
            ok &= (a == b) and (a == c)
            report.append(line)
            print("selftest determinism", json.dumps(line))
    return ok, report


def sensitivity(only=None, tier="quick", patch_dir=None, keep_going=True):
    """Break the property on purpose in a scratch worktree (outside /repo and /verif),
    run the registered quick check against it, require exit 1; remove the worktree."""
    import glob
    import shutil
    import subprocess
    import tempfile
    patch_dir = patch_dir or os.path.join(orchestrator.VERIF, "selftest_mutants")
    patches = sorted(glob.glob(os.path.join(patch_dir, "*.diff")))
    if only:
        patches = [p for p in patches if only in os.path.basename(p)]
    results = []
    for patch in patches:
        name = os.path.basename(patch)[:-5]
        pid = name.split("_")[0]
        tmp = tempfile.mkdtemp(prefix="verif-mut-")
        wt = os.path.join(tmp, "tree")
        t0 = time.monotonic()
        rec = {"mutant": name, "property": pid}
        try:
            subprocess.run(["git", "-C", determinism.REPO, "worktree", "add", "-q", "--detach", wt, "HEAD"],
                           check=True, capture_output=True)
            ap = subprocess.run(["git", "-C", wt, "apply", patch], capture_output=True, text=True)
            if ap.returncode != 0:
                rec["status"] = "patch_does_not_apply"
                rec["detail"] = ap.stderr[-300:]
            else:
                env = dict(os.environ, VERIF_REPO=wt, VERIF_REPLAY_DIR=os.path.join(tmp, "replays"),
                           VERIF_EVIDENCE_DIR=os.path.join(tmp, "evidence"))
                env.pop("PYTHONPATH", None)
                mtier = tier
                if "_THOROUGH_" in name:
                    # needs a fault kind only the thorough tier injects (interrupted calls): 5 min of it
                    mtier = "thorough"
                    env["VERIF_BUDGET_S"] = env.get("VERIF_BUDGET_S", "300")
                rec["tier"] = mtier
                r = subprocess.run([os.path.join(orchestrator.VERIF, "bin", "check"), pid, "--tier", mtier],
                                   capture_output=True, text=True, env=env, timeout=3600)
                viol = [l for l in r.stdout.splitlines() if l.startswith("VIOLATION")]
                rec["exit"] = r.returncode
                rec["violations"] = len(viol)
                rec["status"] = "caught" if r.returncode == 1 and viol else ("harness_error" if r.returncode == 2 else "MISSED")
                detail = [l.strip() for l in r.stdout.splitlines() if l.startswith("  op=")]
                rec["first"] = detail[0][:300] if detail else ""
                if r.returncode == 2:
                    rec["detail"] = r.stdout[-600:]
                # does the replay reproduce in a fresh process?
                if viol:
                    rp = viol[0].split("replay=")[1].strip()
                    r2 = subprocess.run([os.path.join(orchestrator.VERIF, "bin", "check"), pid, "--replay", rp],
                                        capture_output=True, text=True, env=env, timeout=1800)
                    rec["replay_reproduces"] = r2.returncode == 1 and "VIOLATION" in r2.stdout
        except Exception as e:
            rec["status"] = "harness_error"
            rec["detail"] = repr(e)[:300]
        finally:
            subprocess.run(["git", "-C", determinism.REPO, "worktree", "remove", "--force", wt], capture_output=True)
            shutil.rmtree(tmp, ignore_errors=True)
        rec["wall_s"] = round(time.monotonic() - t0, 1)
        results.append(rec)
        print("selftest sensitivity", json.dumps(rec))
        sys.stdout.flush()
    return results


def main(a):
    t0 = time.monotonic()
    what = a.sub or "import"
    determinism.use_repo_tree()
    if what == "import":
        import xrspatial
        from . import cases, props  # noqa
        print("selftest import ok: xrspatial from", os.path.dirname(xrspatial.__file__),
              "props", sorted(props.GRAPH_PROPS))
        return 0
    if what == "determinism":
        from .props import GRAPH_PROPS
        pids = sorted(GRAPH_PROPS)
        runs = 48 if a.size == "small" else 400
        seeds = [11] if a.size == "small" else [11, 12, 13]
        ok, report = determinism_graph(pids, seeds, runs)
        ok2, report2 = determinism_hist(["C10", "C11"], seeds[:1], 16 if a.size == "small" else 48)
        ok = ok and ok2
        report = report + report2
        os.makedirs(os.path.join(orchestrator.VERIF, "evidence"), exist_ok=True)
        with open(os.path.join(orchestrator.VERIF, "evidence", "selftest_determinism.json"), "w") as f:
            json.dump({"ok": ok, "report": report, "wall_s": round(time.monotonic() - t0, 1)}, f, indent=1)
        print("selftest determinism:", "ok" if ok else "FAILED")
        return 0 if ok else 2
    if what == "sensitivity":
        res = sensitivity(only=os.environ.get("VERIF_ONLY_MUTANT"), tier=a.tier)
        os.makedirs(os.path.join(orchestrator.VERIF, "evidence"), exist_ok=True)
        out = os.path.join(orchestrator.VERIF, "evidence", "selftest_sensitivity.json")
        prev = {}
        if os.environ.get("VERIF_ONLY_MUTANT") and os.path.exists(out):
            prev = {r["mutant"]: r for r in json.load(open(out)).get("results", [])}
        for r in res:
            prev[r["mutant"]] = r
        allr = sorted(prev.values(), key=lambda r: r["mutant"]) if prev else res
        with open(out, "w") as f:
            json.dump({"results": allr, "caught": sum(r.get("status") == "caught" for r in allr),
                       "total": len(allr)}, f, indent=1)
        missed = [r["mutant"] for r in res if r.get("status") != "caught"]
        print("selftest sensitivity: %d/%d caught; not caught: %s" % (len(res) - len(missed), len(res), missed))
        return 0 if not missed else 2
    print("unknown selftest", what)
    return 2

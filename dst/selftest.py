"""Self-tests of the machinery itself (DESIGN 2.3, 5)."""
import json
import os
import sys
import time

from . import determinism, orchestrator


def _graph_digests(pid, seed, runs, nworkers, hashseed, tier="quick"):
    argvs = [[pid, "--seed", seed, "--tier", tier, "--worker", w, "--nworkers", nworkers, "--runs", runs,
              "--outdir", "/tmp/verif-selftest-replays", "--max-violations", 0] for w in range(nworkers)]
    res = orchestrator.run_workers("dst.worker_graph", argvs, wall_timeout=1200,
                                   extra_env={"PYTHONHASHSEED": str(hashseed)})
    errs = orchestrator.harness_errors(res)
    if errs:
        raise RuntimeError("; ".join(errs))
    out = {}
    for r in res:
        for m in r.msgs:
            if m.get("t") == "summary":
                out[r.idx] = (m["trace_digest"], m["trace_digest_nokeys"], m["counts"].get("evaluations", 0))
    return out


def determinism_graph(pids, seeds, runs, nworkers=16):
    """Same seed twice in fresh interpreters, and under other PYTHONHASHSEEDs."""
    ok = True
    report = []
    for pid in pids:
        for seed in seeds:
            a = _graph_digests(pid, seed, runs, nworkers, 0)
            b = _graph_digests(pid, seed, runs, nworkers, 0)
            same = a == b
            ok &= same
            line = {"property": pid, "seed": seed, "runs": runs, "evaluations": sum(v[2] for v in a.values()),
                    "same_twice_hashseed0": same}
            for hs in (1, 4242):
                c = _graph_digests(pid, seed, runs, nworkers, hs)
                line["keys_equal_hashseed%d" % hs] = all(a[w][0] == c[w][0] for w in a)
                nk = all(a[w][1] == c[w][1] for w in a)
                line["choices_results_equal_hashseed%d" % hs] = nk
                if pid != "C03":
                    ok &= nk
            report.append(line)
            print("selftest determinism", json.dumps(line))
    return ok, report


def main(a):
    t0 = time.monotonic()
    what = a.sub or "import"
    determinism.use_repo_tree()
    if what == "import":
        import xrspatial
        from . import cases, props  # noqa
        print("selftest import ok: xrspatial from", os.path.dirname(xrspatial.__file__),
              "props", sorted(props.GRAPH_PROPS))
        return 0
    if what == "determinism":
        from .props import GRAPH_PROPS
        pids = sorted(GRAPH_PROPS)
        runs = 48 if a.size == "small" else 400
        seeds = [11] if a.size == "small" else [11, 12, 13]
        ok, report = determinism_graph(pids, seeds, runs)
        os.makedirs(os.path.join(orchestrator.VERIF, "evidence"), exist_ok=True)
        with open(os.path.join(orchestrator.VERIF, "evidence", "selftest_determinism.json"), "w") as f:
            json.dump({"ok": ok, "report": report, "wall_s": round(time.monotonic() - t0, 1)}, f, indent=1)
        print("selftest determinism:", "ok" if ok else "FAILED")
        return 0 if ok else 2
    print("unknown selftest", what)
    return 2

"""Shrink a failing graph case while the same violation *class* persists.

Order (DESIGN 2.8): drop faults; schedule -> dfs (if it still fails the schedule
is irrelevant); merge chunks; crop rows/cols; simplify values; simplify
parameters.  Every candidate is re-run from scratch.  Case-changing candidates
run under the *seeded policy* (a function of the candidate and the seed); the
explicit schedule of the final failing run is what the replay file records.
"""
import copy
import time

import numpy as np


class Budget:
    def __init__(self, max_candidates=80, max_seconds=120.0):
        self.n = 0
        self.max_n = max_candidates
        self.t0 = time.monotonic()
        self.max_s = max_seconds

    def left(self):
        return self.n < self.max_n and (time.monotonic() - self.t0) < self.max_s


def _crop(case, axis, side):
    c = copy.deepcopy(case)
    for r in c["rasters"]:
        d = r["data"]
        dn = "y" if axis == 0 else "x"
        ax = list(r["dims"]).index(dn) if dn in r["dims"] else d.ndim - 2 + axis
        if d.shape[ax] <= 1:
            return None
        sl = [slice(None)] * d.ndim
        sl[ax] = slice(1, None) if side == 0 else slice(0, -1)
        r["data"] = d[tuple(sl)].copy()
        dim = r["dims"][ax]
        if dim in r.get("coords", {}):
            cv = np.asarray(r["coords"][dim])
            r["coords"][dim] = cv[1:].copy() if side == 0 else cv[:-1].copy()
        ch = r.get("chunks")
        if ch:
            axc = list(ch[ax])
            j = 0 if side == 0 else len(axc) - 1
            axc[j] -= 1
            if axc[j] == 0:
                axc.pop(j)
            ch = [list(a) for a in ch]
            ch[ax] = axc
            r["chunks"] = ch
    return c


def _merge_axis(case, ri, ax):
    r = case["rasters"][ri]
    ch = r.get("chunks")
    if not ch or len(ch[ax]) == 1:
        return None
    c = copy.deepcopy(case)
    c["rasters"][ri]["chunks"][ax] = [int(sum(ch[ax]))]
    return c


def _merge_pair(case, ri, ax, j):
    ch = case["rasters"][ri].get("chunks")
    if not ch or len(ch[ax]) <= j + 1:
        return None
    c = copy.deepcopy(case)
    a = list(ch[ax])
    a[j:j + 2] = [a[j] + a[j + 1]]
    c["rasters"][ri]["chunks"][ax] = a
    return c


def _simplify_values(case):
    for ri, r in enumerate(case["rasters"]):
        d = r["data"]
        if d.dtype.kind == "f":
            fin = np.isfinite(d)
            if fin.any() and not np.array_equal(d[fin], np.round(d[fin])):
                c = copy.deepcopy(case)
                dd = c["rasters"][ri]["data"]
                dd[fin] = np.round(dd[fin])
                yield c
            if np.isinf(d).any():
                c = copy.deepcopy(case)
                dd = c["rasters"][ri]["data"]
                dd[np.isinf(dd)] = np.nan
                yield c
            if np.isnan(d).any():
                c = copy.deepcopy(case)
                dd = c["rasters"][ri]["data"]
                dd[np.isnan(dd)] = 0
                yield c
        if d.size and (d != d.flat[0]).any() if d.dtype.kind != "f" else False:
            pass


def _drop_extras(case):
    for k in ("pair", "followup"):
        if case.get(k):
            c = copy.deepcopy(case)
            del c[k]
            yield c


def _simplify_config(case):
    cfg = case.get("dask_config") or {}
    for k in list(cfg):
        c = copy.deepcopy(case)
        del c["dask_config"][k]
        yield c


def minimise(case, sched, fails, cls, simplify_params=None, budget=None, valid=None):
    """fails(case, sched) -> (class or None, outcome).  Returns (case, sched, log)."""
    budget = budget or Budget()
    log = []

    def attempt(c, s, what):
        if c is None or not budget.left():
            return False
        if valid is not None and not valid(c):
            return False            # outside the property's domain: not a candidate
        budget.n += 1
        try:
            got, _ = fails(c, s)
        except Exception as e:  # a broken candidate is just not a failing one
            got = None
            log.append("candidate %s raised %s" % (what, type(e).__name__))
        if got == cls:
            log.append("kept: " + what)
            return True
        return False

    base = {k: v for k, v in sched.items() if k not in ("replay",)}
    # 1. faults
    if base.get("faults"):
        s = dict(base, faults=[])
        if attempt(case, s, "drop faults"):
            base = s
    # 2. schedule
    s = dict(base, policy="dfs", policy_arg=None)
    if attempt(case, s, "schedule -> dfs (schedule irrelevant)"):
        base = s
    for c in _drop_extras(case):
        if attempt(c, base, "drop pair / follow-up call"):
            case = c
    # 3. dask config
    changed = True
    while changed and budget.left():
        changed = False
        for c in _simplify_config(case):
            if attempt(c, base, "drop dask config key"):
                case, changed = c, True
                break
    # 4. chunks
    changed = True
    while changed and budget.left():
        changed = False
        for ri in range(len(case["rasters"])):
            nd = case["rasters"][ri]["data"].ndim
            for ax in range(nd):
                c = _merge_axis(case, ri, ax)
                if attempt(c, base, "raster %d axis %d -> one chunk" % (ri, ax)):
                    case, changed = c, True
                    continue
                ch = case["rasters"][ri].get("chunks")
                if ch:
                    for j in range(len(ch[ax]) - 1):
                        c = _merge_pair(case, ri, ax, j)
                        if attempt(c, base, "raster %d axis %d merge chunks %d,%d" % (ri, ax, j, j + 1)):
                            case, changed = c, True
                            break
    # 5. crop
    changed = True
    while changed and budget.left():
        changed = False
        for axis in (0, 1):
            for side in (1, 0):
                c = _crop(case, axis, side)
                if attempt(c, base, "crop axis %d side %d" % (axis, side)):
                    case, changed = c, True
    # 6. values, params
    for gen in (_simplify_values, simplify_params):
        if gen is None:
            continue
        changed = True
        while changed and budget.left():
            changed = False
            for c in gen(case):
                if attempt(c, base, "simplify (%s)" % gen.__name__):
                    case, changed = c, True
                    break
    return case, base, log

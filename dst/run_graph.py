"""Run one graph case on the simulator and judge it against the NumPy backend."""
import random
import traceback
import warnings

import dask
import numpy as np

from . import determinism
from .cases import OPS, build_raster, is_lazy, materialise
from .graphsim import InjectedFault, SimScheduler, StepCap, embedded_arrays, under
from .util import derive_seed

determinism.install()
HERE = __import__("os").path.dirname(__import__("os").path.abspath(__file__))


def build_with_bases(case, backend):
    """Rasters plus the caller-owned base arrays behind them (for M2)."""
    import dask.array as da
    import xarray as xr
    import copy
    rasters, bases = [], []
    for n, spec in enumerate(case["rasters"]):
        data = np.array(spec["data"], copy=True)
        bases.append(("raster%d" % n, data))
        if backend == "dask":
            ch = spec.get("chunks") or tuple((s,) for s in data.shape)
            ch = tuple(tuple(int(c) for c in ax) for ax in ch)
            arr = da.from_array(data, chunks=ch)
            for kname, emb in embedded_arrays(arr):
                bases.append(("raster%d:%s" % (n, kname), emb))
        else:
            arr = data
        coords = {k: (k, np.array(v, copy=True)) for k, v in spec.get("coords", {}).items()}
        for k, v in spec.get("scalar_coords", {}).items():
            coords[k] = v
        rasters.append(xr.DataArray(arr, dims=tuple(spec["dims"]), coords=coords,
                                    attrs=copy.deepcopy(spec.get("attrs", {})), name=spec.get("name")))
    return rasters, bases


def _from_harness(e):
    """True if the exception was raised by the simulator's own code (a harness
    bug must never be reported as a violation of the property)."""
    tb = traceback.extract_tb(e.__traceback__)
    if not tb:
        return False
    last = tb[-1].filename
    return last.startswith(HERE) and not last.endswith("cases.py")


def result_digest(got):
    import hashlib
    import pandas as pd
    h = hashlib.sha256()
    if isinstance(got, dict):
        for k in sorted(got):
            h.update(str(k).encode())
            h.update(np.ascontiguousarray(got[k]).tobytes())
    elif isinstance(got, pd.DataFrame):
        h.update(repr(list(got.columns)).encode())
        h.update(np.ascontiguousarray(got.to_numpy(dtype=float, na_value=np.nan)).tobytes())
    else:
        a = np.asarray(got)
        h.update(repr((a.dtype.str, a.shape)).encode())
        h.update(np.ascontiguousarray(a).tobytes())
    return h.hexdigest()[:16]


def _exc_info(e):
    tb = traceback.extract_tb(e.__traceback__)
    where = ""
    for fr in reversed(tb):
        if "/xrspatial/" in fr.filename:
            where = "%s:%s" % (fr.filename.split("/xrspatial/")[-1], fr.name)
            break
    return {"type": type(e).__name__, "msg": str(e)[:300], "where": where}


def numpy_reference(case):
    """Returns (want, None) or (None, discard-reason)."""
    with warnings.catch_warnings():
        warnings.simplefilter("ignore")
        with np.errstate(all="ignore"):
            try:
                rasters, _ = build_with_bases(case, "numpy")
                out = OPS[case["op"]](rasters, case["params"])
                return materialise(out), None
            except Exception as e:  # NumPy itself rejects the input: outside the domain
                return None, "numpy_raises:" + type(e).__name__


def run_case(case, sched, compare, want=None, m1=False):
    """One simulated execution.  sched = {"seed", "policy", "policy_arg",
    "faults", "replay", "reexec_rate"}.  Returns an outcome dict."""
    out = {"status": "ok", "violation": None, "notes": []}
    cfg = dict(case.get("dask_config") or {})
    with dask.config.set(cfg):
        if want is None:
            want, why = numpy_reference(case)
            if why:
                out["status"] = "discard"
                out["reason"] = why
                return out
        seed = sched.get("seed", 0)
        determinism.reseed(derive_seed(seed, "uuid"))
        rasters, bases = build_with_bases(case, "dask")
        sim = SimScheduler(random.Random(derive_seed(seed, "sched")),
                           policy=sched.get("policy", "uniform"), policy_arg=sched.get("policy_arg"),
                           faults=sched.get("faults") or (), replay=sched.get("replay"),
                           reexec_rate=sched.get("reexec_rate", 0.0), m1=m1, watch=bases,
                           step_cap=sched.get("step_cap", 60000))
        out["sim"] = sim
        aborted = 0
        with warnings.catch_warnings():
            warnings.simplefilter("ignore")
            with np.errstate(all="ignore"), under(sim):
                try:
                    lazy, got = None, None
                    for attempt in range(4):
                        try:
                            if lazy is None:
                                lazy = OPS[case["op"]](rasters, case["params"])
                                if not is_lazy(lazy):
                                    out["status"] = "violation"
                                    out["violation"] = {"class": "not_lazy", "type": type(getattr(lazy, "data", lazy)).__name__}
                                    return out
                            got = materialise(lazy)
                            break
                        except InjectedFault:
                            # the aborted compute: Dask must have unwound completely
                            aborted += 1
                            if sim.frames:
                                raise RuntimeError("graphsim: frames left after abort")
                            continue
                    else:
                        raise RuntimeError("graphsim: more aborts than faults")
                except StepCap:
                    out["status"] = "discard"
                    out["reason"] = "step_cap"
                    return out
                except InjectedFault:
                    raise
                except Exception as e:
                    if _from_harness(e):
                        raise
                    out["status"] = "violation"
                    info = _exc_info(e)
                    out["violation"] = {"class": "dask_raises:" + info["type"], "exc": info,
                                        "after_abort": bool(aborted)}
                    return out
                out["got_digest"] = result_digest(got)
                v = compare(case, got, want)
                if v is None and aborted:
                    # the public call repeated after the abort ("preceded by any other call")
                    try:
                        rasters2, _ = build_with_bases(case, "dask")
                        got2 = materialise(OPS[case["op"]](rasters2, case["params"]))
                        v = compare(case, got2, want)
                        if v:
                            v["class"] = "repeat_" + v["class"]
                    except StepCap:
                        pass
                    except Exception as e:
                        info = _exc_info(e)
                        v = {"class": "dask_raises:" + info["type"], "exc": info}
                if v is None and case.get("pair") and not aborted:
                    v = _pair(case, compare, want)
                if v is None and case.get("followup"):
                    # a second call on the SAME raster objects (a user keeps working with them): other
                    # parameters and/or one raster swapped for another of the same shape and chunks
                    v = _followup(case, rasters, compare)
                if v is not None:
                    v["after_abort"] = bool(aborted)
                    out["status"] = "violation"
                    out["violation"] = v
        out["aborted"] = aborted
    return out


def pair_case(case):
    return {k: (case["pair"]["params"] if k == "params" else x) for k, x in case.items() if k != "pair"}


def _pair(case, compare, want1):
    """Two calls on the same Dask rasters, both left lazy, computed by one dask.compute."""
    c2 = pair_case(case)
    want2, why = numpy_reference(c2)
    if why:
        return None
    rasters, _ = build_with_bases(case, "dask")
    try:
        l1 = OPS[case["op"]](rasters, case["params"])
        l2 = OPS[case["op"]](rasters, c2["params"])
        g1, g2 = dask.compute(l1, l2)
        got1, got2 = materialise(g1), materialise(g2)
    except (StepCap, InjectedFault):
        return None
    except Exception as e:
        if _from_harness(e):
            raise
        info = _exc_info(e)
        return {"class": "pair_dask_raises:" + info["type"], "exc": info}
    for which, c, got, want in (("first", case, got1, want1), ("second", c2, got2, want2)):
        v = compare(c, got, want)
        if v is not None:
            v = dict(v)
            v["class"] = "pair_" + v["class"]
            v["which_of_the_pair"] = which
            v["pair_params"] = c2["params"] if which == "second" else None
            return v
    return None


def followup_case(case):
    fu = case["followup"]
    c2 = {"op": case["op"], "variant": case.get("variant"), "params": fu["params"], "dask_config": case.get("dask_config"),
          "rasters": [r if fr is None else fr for r, fr in zip(case["rasters"], fu.get("rasters") or [None] * len(case["rasters"]))]}
    return c2


def _followup(case, rasters, compare):
    c2 = followup_case(case)
    want2, why = numpy_reference(c2)
    if why:
        return None
    fu = case["followup"]
    rs2 = []
    fresh, _ = build_with_bases(c2, "dask")
    for k, r in enumerate(rasters):
        swapped = (fu.get("rasters") or [None] * len(rasters))[k] is not None
        rs2.append(fresh[k] if swapped else r)
    try:
        got2 = materialise(OPS[c2["op"]](rs2, c2["params"]))
    except (StepCap, InjectedFault):
        return None
    except Exception as e:
        if _from_harness(e):
            raise
        info = _exc_info(e)
        return {"class": "followup_dask_raises:" + info["type"], "exc": info}
    v = compare(c2, got2, want2)
    if v is not None:
        v = dict(v)
        v["class"] = "followup_" + v["class"]
    return v

"""Comparison rules (DESIGN section 3).  Each returns None (agrees) or a dict
{"class": <violation class>, ...detail...}.  The class is what minimisation
must preserve and what known_findings.json signatures match on."""
import numpy as np

from .util import first_diff

EPS32 = float(np.finfo(np.float32).eps)
HOT_THRESHOLDS = (1.65, 1.96, 2.58)


def exact(got, want, cls="value_mismatch"):
    got = np.asarray(got)
    want = np.asarray(want)
    if got.shape != want.shape:
        return {"class": "shape_mismatch", "got": list(got.shape), "want": list(want.shape)}
    d = first_diff(got, want)
    if d is None:
        return None
    d["class"] = cls
    return d


def close(got, want, atol, rtol, cls="value_mismatch", extra_ok=None):
    got = np.asarray(got, dtype=np.float64)
    want = np.asarray(want, dtype=np.float64)
    if got.shape != want.shape:
        return {"class": "shape_mismatch", "got": list(got.shape), "want": list(want.shape)}
    both_nan = np.isnan(got) & np.isnan(want)
    with np.errstate(invalid="ignore"):
        ok = both_nan | (got == want) | (np.abs(got - want) <= atol + rtol * np.abs(want))
    if extra_ok is not None:
        ok = ok | extra_ok(got, want)
    if ok.all():
        return None
    idx = tuple(int(v) for v in np.argwhere(~ok)[0])
    return {"class": cls, "index": list(idx), "got": _f(got[idx]), "want": _f(want[idx]),
            "n_diff": int((~ok).sum()), "atol": atol, "rtol": rtol}


def _f(v):
    v = float(v)
    if np.isnan(v):
        return "nan"
    if np.isinf(v):
        return "inf" if v > 0 else "-inf"
    return v


# ---------------------------------------------------------------- hotspots

def _hotspots_z64(case):
    """z-scores in float64 from the float32 data, as the documented formula."""
    data = np.asarray(case["rasters"][0]["data"]).astype(np.float32).astype(np.float64)
    k = np.asarray(case["params"]["kernel"], dtype=np.float64)
    k = k / k.sum()
    H, W = data.shape
    hr, hc = k.shape[0] // 2, k.shape[1] // 2
    mean = np.full((H, W), np.nan)
    for y in range(hr, H - hr):
        for x in range(hc, W - hc):
            win = data[y - hr:y + hr + 1, x - hc:x + hc + 1]
            mean[y, x] = float((win * k).sum())
    with np.errstate(all="ignore"):
        gm = np.nanmean(data)
        gs = np.nanstd(data)
        z = (mean - gm) / gs
        kappa = (abs(gm) + np.nanmax(np.abs(data))) / gs
    return z, kappa


def hotspots(case, got, want):
    got = np.asarray(got)
    want = np.asarray(want)
    if got.shape != want.shape:
        return {"class": "shape_mismatch", "got": list(got.shape), "want": list(want.shape)}
    neq = got != want
    if not neq.any():
        return None
    z, kappa = _hotspots_z64(case)
    if not np.isfinite(kappa):
        d = first_diff(got, want)
        d["class"] = "value_mismatch"
        d["note"] = "ill-defined standardisation; exact equality required"
        return d
    bad = []
    for idx in np.argwhere(neq):
        i = tuple(int(v) for v in idx)
        zi = z[i]
        if not np.isfinite(zi):
            bad.append(i)
            continue
        tol = 4 * EPS32 * kappa * (1 + abs(zi)) + 1e-6
        if min(abs(abs(zi) - t) for t in HOT_THRESHOLDS) > tol:
            bad.append(i)
    if not bad:
        return None
    i = bad[0]
    return {"class": "value_mismatch", "index": list(i), "got": int(got[i]), "want": int(want[i]),
            "z64": _f(z[i]), "kappa": _f(kappa), "n_diff": len(bad)}


def hotspots_condition(case):
    _, kappa = _hotspots_z64(case)
    return float(kappa)


# ------------------------------------------------------------ perlin / terrain

def perlin(case, got, want):
    return close(got, want, atol=1e-5, rtol=1e-5)


def terrain(case, got, want):
    zf = abs(float(case["params"].get("zfactor", 4000)))
    tol = 1e-5 * max(zf, 1e-30) * 1.3 + 1e-12

    def water_edge(g, w):
        edge = 0.3 * zf
        return ((g == 0) & (np.abs(w - edge) <= tol * 4)) | ((w == 0) & (np.abs(g - edge) <= tol * 4))
    return close(got, want, atol=tol, rtol=1e-5, extra_ok=water_edge)


# -------------------------------------------------------------------- C01

def c01(case, got, want):
    op = case["op"]
    if op == "summarize_terrain":
        if set(got) != set(want):
            return {"class": "vars_mismatch", "got": sorted(got), "want": sorted(want)}
        for k in sorted(want):
            v = exact(got[k], want[k])
            if v:
                v["var"] = k
                return v
        return None
    if op == "hotspots":
        return hotspots(case, got, want)
    if op == "perlin":
        return perlin(case, got, want)
    if op == "generate_terrain":
        return terrain(case, got, want)
    return exact(got, want)

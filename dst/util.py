"""Shared helpers: seed derivation, JSON codec for arrays, digests.

Rules (DESIGN 2.3): one integer seeds everything; sub-streams are derived by
*name* so adding a draw in one stream never shifts another; nothing here reads
a clock or draws from a PRNG on a logging path.
"""
import hashlib
import json
import math
import random

import numpy as np


# --------------------------------------------------------------------------
# PRNG discipline
# --------------------------------------------------------------------------

def derive_seed(*parts) -> int:
    h = hashlib.sha256(repr(parts).encode()).digest()
    return int.from_bytes(h[:8], "big")


def rng_for(*parts) -> random.Random:
    """A PRNG that is a pure function of its name parts."""
    return random.Random(derive_seed(*parts))


class Streams:
    """Named sub-streams of one run: Streams(seed, prop, run)['chunks']."""

    def __init__(self, *base):
        self.base = tuple(base)
        self._cache = {}

    def __getitem__(self, name) -> random.Random:
        r = self._cache.get(name)
        if r is None:
            r = self._cache[name] = rng_for(*self.base, name)
        return r


# --------------------------------------------------------------------------
# Digests
# --------------------------------------------------------------------------

def arr_digest(a) -> str:
    """Digest of dtype, shape and *logical* content (layout independent)."""
    a = np.asarray(a)
    h = hashlib.sha256()
    h.update(str(a.dtype).encode())
    h.update(repr(a.shape).encode())
    h.update(np.ascontiguousarray(a).tobytes())
    return h.hexdigest()[:16]


def obj_digest(o) -> str:
    return hashlib.sha256(canon(o).encode()).hexdigest()[:16]


def canon(o) -> str:
    return json.dumps(to_jsonable(o), sort_keys=True, allow_nan=False)


# --------------------------------------------------------------------------
# JSON codec (arrays embedded, NaN/inf as strings; exact round trip)
# --------------------------------------------------------------------------

def _num(v):
    if isinstance(v, (bool, np.bool_)):
        return bool(v)
    if isinstance(v, (int, np.integer)):
        return int(v)
    f = float(v)
    if math.isnan(f):
        return "nan"
    if math.isinf(f):
        return "inf" if f > 0 else "-inf"
    return f


def _unnum(v):
    if isinstance(v, str):
        return float(v)
    return v


def _enc_list(x):
    if isinstance(x, list):
        return [_enc_list(v) for v in x]
    return _num(x)


def _dec_list(x):
    if isinstance(x, list):
        return [_dec_list(v) for v in x]
    return _unnum(x)


def to_jsonable(o):
    if isinstance(o, np.ndarray):
        return {"__nd__": str(o.dtype), "shape": list(o.shape),
                "data": _enc_list(o.tolist())}
    if isinstance(o, (np.floating, float)):
        v = _num(o)
        if isinstance(v, str):
            return {"__f__": v}
        if isinstance(o, np.floating):
            return {"__npf__": str(o.dtype), "v": v}
        return v
    if isinstance(o, (np.integer,)):
        return {"__npi__": str(o.dtype), "v": int(o)}
    if isinstance(o, (np.bool_,)):
        return bool(o)
    if isinstance(o, tuple):
        return {"__tuple__": [to_jsonable(v) for v in o]}
    if isinstance(o, list):
        return [to_jsonable(v) for v in o]
    if isinstance(o, dict):
        if all(isinstance(k, str) for k in o):
            return {k: to_jsonable(v) for k, v in o.items()}
        return {"__items__": [[to_jsonable(k), to_jsonable(v)] for k, v in o.items()]}
    if o is None or isinstance(o, (str, int, bool)):
        return o
    raise TypeError("not serialisable: %r" % (type(o),))


def from_jsonable(o):
    if isinstance(o, list):
        return [from_jsonable(v) for v in o]
    if isinstance(o, dict):
        if "__nd__" in o:
            dt = np.dtype(o["__nd__"])
            data = _dec_list(o["data"])
            a = np.array(data, dtype=dt)
            return a.reshape(o["shape"])
        if "__f__" in o:
            return float(o["__f__"])
        if "__npf__" in o:
            return np.dtype(o["__npf__"]).type(_unnum(o["v"]))
        if "__npi__" in o:
            return np.dtype(o["__npi__"]).type(o["v"])
        if "__tuple__" in o:
            return tuple(from_jsonable(v) for v in o["__tuple__"])
        if "__items__" in o:
            return {_hashable(from_jsonable(k)): from_jsonable(v) for k, v in o["__items__"]}
        return {k: from_jsonable(v) for k, v in o.items()}
    return o


def _hashable(k):
    if isinstance(k, list):
        return tuple(k)
    return k


def dumps(o, **kw) -> str:
    return json.dumps(to_jsonable(o), allow_nan=False, **kw)


def loads(s):
    return from_jsonable(json.loads(s))


def dump_file(path, o):
    with open(path, "w") as f:
        f.write(dumps(o, indent=1))
        f.write("\n")


def load_file(path):
    with open(path) as f:
        return loads(f.read())


# --------------------------------------------------------------------------
# comparisons
# --------------------------------------------------------------------------

def same_bits(a, b) -> bool:
    """Equal dtype, shape and values with NaN == NaN (sign of NaN ignored)."""
    a = np.asarray(a)
    b = np.asarray(b)
    if a.shape != b.shape:
        return False
    if a.dtype.kind in "fc" or b.dtype.kind in "fc":
        return bool(np.array_equal(a, b, equal_nan=True))
    return bool(np.array_equal(a, b))


def first_diff(a, b):
    """Index and values of the first differing cell (after float64 cast)."""
    a = np.asarray(a)
    b = np.asarray(b)
    if a.shape != b.shape:
        return {"shape_a": list(a.shape), "shape_b": list(b.shape)}
    fa = a.astype(np.float64)
    fb = b.astype(np.float64)
    neq = ~((fa == fb) | (np.isnan(fa) & np.isnan(fb)))
    idx = np.argwhere(neq)
    if len(idx) == 0:
        return None
    i = tuple(int(v) for v in idx[0])
    return {"index": list(i), "got": _num(fa[i]), "want": _num(fb[i]),
            "n_diff": int(neq.sum())}

"""History generation and the in-child history runner (C10 / C11)."""
import collections
import hashlib
import sys

import numpy as np

from . import gen_hist, histsim, util
from .graphsim import draw_policy


QUICK_KEEP = {"proximity": 0.34, "polygonize": 0.45, "viewshed": 0.3, "pathfinding": 0.5, "generators": 0.5}
COST = {"viewshed": 28.0, "polygonize": 13.0, "proximity": 5.5, "pathfinding": 5.5, "generators": 4.0,
        "focal": 2.0, "zonal": 2.0, "local": 0.1}


def catalogue(prop, seed, tier):
    rng = util.rng_for(seed, "catalogue", prop)
    if prop == "C11":
        cat = gen_hist.catalogue_c11(seed, tier, rng)
        if tier == "quick":
            # thin the JIT-heavy families (seeded: other seeds keep other entries); error entries are cheap
            trng = util.rng_for(seed, "catalogue-thin", prop)
            keep = []
            per_op = collections.Counter()
            for e in cat["entries"]:
                p = QUICK_KEEP.get(e["family"])
                if p is None or e.get("expect_error") or e.get("always") or trng.random() < p \
                        or per_op[(e["family"], e["op"])] < 1:
                    keep.append(e)
                    per_op[(e["family"], e["op"])] += 1
            cat["entries"] = keep
        return cat
    return gen_hist.catalogue_c10(seed, tier, rng)


def cost_of(e):
    if e.get("expect_error"):
        return 0.3
    return COST.get(e["family"], 1.0)


# --------------------------------------------------------------------------
# history generation (pure function of seed, prop, h, tier)
# --------------------------------------------------------------------------

def gen_history(cat, prop, seed, h, tier):
    rng = util.rng_for(seed, prop, "history", h)
    entries = cat["entries"]
    fkey = "group" if prop == "C11" else "family"
    fams = sorted({e[fkey] for e in entries})
    light_f = [f for f in fams if f != "viewshed"]
    if prop == "C11":
        k = rng.randint(2, 5) if tier == "quick" else rng.randint(3, 8)
    else:
        k = rng.randint(2, min(4, len(light_f))) if tier == "quick" else rng.randint(3, min(6, len(light_f)))
    k = min(k, len(light_f))
    chosen = rng.sample(light_f, k)
    if "viewshed" in fams and rng.random() < (0.12 if tier == "quick" else 0.3):
        chosen.append("viewshed")
    if prop == "C11" and h % 3 == 0 and "generators" in light_f and "generators" not in chosen:
        # every third history carries the seeded generators (pending lazy results across other seeds,
        # global-RNG users in between) whatever else it interleaves
        chosen.append("generators")
    by_f = collections.defaultdict(list)
    for e in entries:
        if e[fkey] in chosen:
            by_f[e[fkey]].append(e["id"])
    ent = {e["id"]: e for e in entries}
    if prop == "C10":
        # coverage of function x dtype x layout matters: a rotating slice of each family
        per = 8 if tier == "quick" else 30
        for f in list(by_f):
            ids = by_f[f]
            start = (h * per) % max(1, len(ids))
            by_f[f] = (ids + ids)[start:start + min(per, len(ids))]
    else:
        per = 8 if tier == "quick" else 18
        for f in list(by_f):
            ids = by_f[f]
            if len(ids) > per:
                must = [i for i in ids if ent[i].get("always")]
                rest = [i for i in ids if not ent[i].get("always")]
                by_f[f] = sorted(must + rng.sample(rest, max(0, per - len(must))))
    ids_all = [i for f in chosen for i in by_f[f]]
    # Dask entries whose result is one lazy raster (joint computes, deferred computes)
    dask_ids = [i for i in ids_all if ent[i]["backend"] == "dask" and not ent[i].get("expect_error")
                and (ent[i]["identity"] in ("same", "hotspots")
                     or ent[i]["op"] in ("perlin", "generate_terrain", "true_color", "focal_stats"))]
    used_rids = {r for i in ids_all for r in ent[i]["rasters"]}
    twins_here = [t for t in cat.get("twins", []) if t[0] in used_rids and t[1] in used_rids]
    L = rng.randint(30, 90) if tier == "quick" else rng.randint(60, 400)
    heavy_left = 6 if tier == "quick" else 40
    ops = []
    prev = None

    def push_call(i):
        nonlocal heavy_left, prev
        e = ent[i]
        if e["heavy"]:
            if heavy_left <= 0:
                return
            heavy_left -= 1
        ops.append({"k": "call", "e": i})
        prev = i

    # every chosen entry at least once, in seeded order, then biased traffic
    first = list(ids_all)
    rng.shuffle(first)
    first.sort(key=lambda i: 0 if ent[i].get("always") else 1)
    for i in first[: max(10, L // 2)]:
        push_call(i)
    pending = []
    while len(ops) < L:
        if pending and len(ops) >= pending[0]:
            pending.pop(0)
            ops.append({"k": "force"})
            continue
        r = rng.random()
        if r < 0.40 or prev is None:
            push_call(rng.choice(ids_all))
        elif r < 0.65:
            same = [i for i in by_f[ent[prev][fkey]] if i != prev]
            push_call(rng.choice(same) if same else rng.choice(ids_all))
        elif r < 0.85:
            a = prev
            b = rng.choice(ids_all)
            push_call(b)
            push_call(a)
        elif r < 0.905:
            ops.append({"k": "scribble"})
        elif r < 0.925 and prop == "C11" and dask_ids:
            # two lazy results pending at once, computed in one dask.compute (one merged graph)
            a = rng.choice(dask_ids)
            same = [i for i in dask_ids if i != a and ent[i][fkey] == ent[a][fkey]]
            b = rng.choice(same) if same and rng.random() < 0.7 else rng.choice(dask_ids)
            if a != b and heavy_left > 1:
                heavy_left -= 2 if ent[a]["heavy"] else 0
                ops.append({"k": "joint", "e": [a, b]})
        elif r < 0.935 and prop == "C11" and dask_ids and heavy_left > 0:
            # a lazy result left pending while other calls are made, computed later
            a = rng.choice(dask_ids)
            if ent[a]["heavy"]:
                heavy_left -= 1
            ops.append({"k": "defer", "e": a})
            pending.append(len(ops) + rng.randint(2, 8))
        elif r < 0.94 and prop == "C11" and twins_here:
            # the user edits a live raster in place (it becomes its twin), then calls again
            a, b = rng.choice(twins_here)
            if rng.random() < 0.5:
                a, b = b, a
            ops.append({"k": "edit", "a": a, "b": b})
            users = [i for i in ids_all if b in ent[i]["rasters"] and not ent[i]["heavy"]]
            if users:
                push_call(rng.choice(users))
        elif r < 0.95:
            ops.append({"k": "bump", "w": rng.choice([8, 16]), "h": rng.choice([6, 9]), "spread": rng.choice([1, 2])})
        elif r < 0.965:
            ops.append({"k": "threads", "n": rng.choice([1, 2, 16])})
        elif r < 0.978:
            ops.append({"k": "restart"})
        elif tier == "thorough" and r < 0.99 and ids_all:
            ops.append({"k": "interrupt", "e": rng.choice(ids_all), "at": 1 + min(int(rng.expovariate(1 / 35.0)), 220)})
        elif ids_all and (tier == "thorough" or rng.random() < 0.6):
            # interrupted call (KeyboardInterrupt at the k-th xrspatial line event), then the same call again
            # wrappers execute 10..150 xrspatial line events (helpers like get_dataarray_resolution count)
            ops.append({"k": "interrupt", "e": rng.choice(ids_all), "at": 1 + min(int(rng.expovariate(1 / 35.0)), 220)})
        else:
            push_call(rng.choice(ids_all))
    for _ in pending:
        ops.append({"k": "force"})
    # interrupt sweeps: one entry interrupted at EVERY xrspatial line event of its wrapper (enumerated,
    # not sampled); JIT-per-call entries (proximity) are left to the sampled interrupts
    skip = ("proximity", "allocation", "direction", "viewshed", "generate_terrain", "perlin", "polygonize")
    by_op = collections.defaultdict(list)
    for e in entries:
        if e["op"] not in skip and not e.get("expect_error"):
            by_op[e["op"]].append(e)
    op_names = sorted(by_op)
    n_sweeps = (2 if tier == "thorough" else (1 if rng.random() < 0.35 else 0)) if op_names else 0
    for j in range(n_sweeps):
        # ops take turns (history index decides), and within an op the entries with the most optional
        # parameters set are preferred: their wrappers have the most code between entry and exit
        opn = op_names[(2 * h + j) % len(op_names)]
        cands = sorted(by_op[opn], key=lambda e: (-len(e["params"]), e["id"]))[:4]
        ops.insert(rng.randint(len(ops) // 2, len(ops)), {"k": "interrupt_sweep", "e": rng.choice(cands)["id"]})
    if prop == "C11":
        kinds = {o["k"] for o in ops}
        gens = [i for i in dask_ids if ent[i]["op"] in ("perlin", "generate_terrain")]
        others = [i for i in ids_all if ent[i]["op"] in ("perlin", "generate_terrain") and i not in gens]
        if gens and len(others) >= 2:
            # a pending generator result across generator calls with other seeds
            g0 = rng.choice(gens)
            sd = ent[g0]["params"].get("seed")
            oth = [i for i in others if ent[i]["params"].get("seed") != sd] or others
            rng.shuffle(oth)
            ops += [{"k": "defer", "e": g0}] + [{"k": "call", "e": i} for i in oth[:8]] + [{"k": "force"}]
        if "joint" not in kinds and len(dask_ids) >= 2:
            a = rng.choice(dask_ids)
            same = [i for i in dask_ids if i != a and ent[i][fkey] == ent[a][fkey]]
            b = rng.choice(same) if same else rng.choice([i for i in dask_ids if i != a])
            ops.append({"k": "joint", "e": [a, b]})
        # every twin pair in reach: call on A, edit A into B in place, call on B, edit back, call on A -
        # same object identity throughout, other content (users of the same op preferred)
        for a, b in twins_here:
            users_a = [i for i in ids_all if a in ent[i]["rasters"] and not ent[i]["heavy"] and ent[i]["backend"] == "numpy"]
            users_b = [i for i in ids_all if b in ent[i]["rasters"] and not ent[i]["heavy"] and ent[i]["backend"] == "numpy"]
            if not (users_a and users_b):
                continue
            ub = rng.choice(users_b)
            same_op = [i for i in users_a if ent[i]["op"] == ent[ub]["op"]]
            ua = rng.choice(same_op) if same_op else rng.choice(users_a)
            ops += [{"k": "call", "e": ua}, {"k": "edit", "a": a, "b": b}, {"k": "call", "e": ub},
                    {"k": "edit", "a": b, "b": a}, {"k": "call", "e": ua}]
    return {"h": h, "mode": rng.choice(["shared", "shared", "fresh"]),
            "threads": rng.choice([1, 2, 16]), "ops": ops, "families": chosen,
            "sched_seed": util.derive_seed(seed, prop, "hist-sched", h)}


# --------------------------------------------------------------------------
# the runner (executes in a child of the zygote)
# --------------------------------------------------------------------------

class Interrupter:
    """Raise KeyboardInterrupt at the k-th line event inside xrspatial code."""

    def __init__(self, at):
        self.at = at
        self.count = 0
        self.fired = False

    def _numba_on_stack(self, frame):
        f = frame.f_back
        while f is not None:
            if "/numba/" in f.f_code.co_filename:
                return True
            f = f.f_back
        return False

    def _local(self, frame, event, arg):
        if event == "line":
            self.count += 1
            if self.count == self.at and not self.fired and not self._numba_on_stack(frame):
                self.fired = True
                raise KeyboardInterrupt("injected interrupt at xrspatial line event %d" % self.at)
        return self._local

    def __call__(self, frame, event, arg):
        fn = frame.f_code.co_filename
        if "/xrspatial/" in fn and "/tests/" not in fn:
            return self._local
        return None


def run_history(prop, cat, hist, refs, start=0, max_violations=3):
    """Run ops[start:] until the end or a 'restart'.  Returns a result dict."""
    ent = {e["id"]: e for e in cat["entries"]}
    pool_specs = cat["pool"]
    shared = hist["mode"] == "shared"
    pool = {}
    res = {"violations": [], "steps": 0, "calls": 0, "by_family": collections.Counter(),
           "faults": collections.Counter(), "notes": collections.Counter(), "pairs": set(),
           "param_transitions": set(), "errors_expected": 0, "next": None, "combos": set(),
           "dask_calls": 0, "sim_steps": 0}
    trace = hashlib.sha256()
    rng = util.rng_for(hist["sched_seed"], "runner", start)
    try:
        import numba
        numba.set_num_threads(min(int(hist.get("threads", 1)), numba.config.NUMBA_NUM_THREADS))
    except Exception:
        res["notes"]["set_num_threads_failed"] += 1
    last = None          # (entry, rasters, outcome)
    prev_entry = None

    def get_rasters(e):
        out = []
        for rid in e["rasters"]:
            key = (rid, e["backend"], util.canon(e["chunks"].get(rid)) if e["backend"] == "dask" else "")
            if shared and not e["private"]:
                r = pool.get(key)
                probs = r.problems() if r is not None else []
                if r is not None and probs and prop == "C11" and not all(p_[0] == "dtype_changed" for p_ in probs):
                    # an earlier call left the user's raster modified.  The user passes the same object
                    # again; C11 compares the result with what a fresh interpreter returns for the
                    # pristine raster - so the raster is NOT repaired here (only the documented dtype
                    # widening by viewshed is)
                    res["notes"]["argument_left_modified_by_an_earlier_call"] += 1
                    probs = []
                if r is None or probs:
                    if r is not None:
                        res["notes"]["pool_raster_restored"] += 1
                    r = histsim.PoolRaster(rid, pool_specs[rid], e["backend"], e["chunks"].get(rid))
                    pool[key] = r
            else:
                r = histsim.PoolRaster(rid, pool_specs[rid], e["backend"], e["chunks"].get(rid))
            out.append(r)
        return out

    def violation(step, op, e, v):
        if len(res["violations"]) < max_violations:
            v = dict(v)
            v.update({"step": step, "op_index": step, "entry": e["id"], "op": e["op"], "family": e["family"]})
            res["violations"].append(v)

    def one_call(step, e, interrupt_at=None):
        nonlocal last, prev_entry
        rasters = get_rasters(e)
        if prop == "C10" and shared:
            for r in rasters:
                pass
        pol = draw_policy(rng) if e["backend"] == "dask" else ("dfs", None)
        if interrupt_at is not None:
            it = Interrupter(interrupt_at)
            sys.settrace(it)
            try:
                try:
                    histsim.run_call(e, rasters, util.derive_seed(hist["sched_seed"], step), pol)
                except KeyboardInterrupt:
                    pass
            finally:
                sys.settrace(None)
            res["faults"]["interrupt_fired" if it.fired else "interrupt_not_reached"] += 1
            if prop == "C10":
                for r in rasters:
                    for what, detail in r.problems(allow_widen=(e["identity"] == "viewshed"),
                                                   allow_inplace=(e["identity"] == "inplace" and r.rid == e["rasters"][1])):
                        violation(step, "interrupt", e, {"class": "input_" + what + "_after_interrupt", "raster": r.rid,
                                                         "detail": detail, "interrupt_at": interrupt_at})
            # the same call immediately afterwards must behave as if nothing happened
            rasters = get_rasters(e)
        o = histsim.run_call(e, rasters, util.derive_seed(hist["sched_seed"], step), pol)
        res["calls"] += 1
        res["by_family"][e["family"]] += 1
        res["combos"].add((e["op"], e["backend"], tuple(str(np.asarray(pool_specs[r]["data"]).dtype) + ":" + pool_specs[r].get("layout", "C") for r in e["rasters"])))
        if o.sim is not None:
            res["dask_calls"] += 1
            res["sim_steps"] += o.sim.step
        if prev_entry is not None:
            res["pairs"].add((prev_entry["id"], e["id"]))
            if prev_entry["family"] == e["family"] and prev_entry["id"] != e["id"]:
                res["param_transitions"].add((prev_entry["id"], e["id"]))
        trace.update(("%d|%d|%s;" % (step, e["id"], o.digest)).encode())
        if o.exc is not None:
            res["errors_expected" if e.get("expect_error") else "errors_other"] = \
                res.get("errors_expected" if e.get("expect_error") else "errors_other", 0) + 1
        if prop == "C11":
            ref = refs.get(str(e["id"]))
            if ref is None:
                res["notes"]["no_reference"] += 1
            elif ref["digest"] != o.digest:
                v = {"class": "result_differs_from_fresh_interpreter", "got_digest": o.digest,
                     "want_digest": ref["digest"], "got_kind": o.canon.get("kind"),
                     "want_kind": ref.get("kind")}
                if o.exc is not None:
                    v["exc"] = o.exc_info
                v["_canon"] = o.canon
                violation(step, "call", e, v)
        else:
            for v in histsim.check_c10(e, rasters, o):
                violation(step, "call", e, v)
            if o.exc is not None and not e.get("expect_error"):
                lay = [pool_specs[r].get("layout", "C") for r in e["rasters"]]
                if "readonly" in lay and not any(x["class"] == "writes_to_readonly_input" for x in res["violations"]):
                    # does it work on a writable copy of the same data?  then the failure is
                    # an attempted in-place write (numba refuses to compile stores to readonly arrays)
                    alt = []
                    for rid in e["rasters"]:
                        sp = dict(pool_specs[rid])
                        if sp.get("layout") == "readonly":
                            sp["layout"] = "C"
                        alt.append(histsim.PoolRaster(rid, sp, e["backend"], e["chunks"].get(rid)))
                    o2 = histsim.run_call(e, alt, 0, ("dfs", None))
                    if o2.exc is None:
                        violation(step, "call", e, {"class": "fails_only_on_readonly_input", "exc": o.exc_info})
                    else:
                        res["notes"]["call_raises_on_any_layout:%s" % e["op"]] += 1
                else:
                    res["notes"]["call_raised:%s:%s" % (e["op"], type(o.exc).__name__)] += 1
        if e["identity"] == "viewshed" and shared:
            # documented exception: the input's dtype may have been widened (values equal, checked
            # above).  The widened raster is no longer the pristine pool raster: retire it.
            for key, r in list(pool.items()):
                if r in rasters and r.problems():
                    del pool[key]
        last = (e, rasters, o)
        prev_entry = e

    def run_joint(step, ea, eb):
        """Two Dask-backed calls left lazy, then computed together in one dask.compute."""
        nonlocal last, prev_entry
        import dask
        import random as _random
        from . import determinism
        from .cases import OPS
        from .graphsim import SimScheduler, under
        ra, rb = get_rasters(ea), get_rasters(eb)
        pol = draw_policy(rng)
        seed = util.derive_seed(hist["sched_seed"], step, "joint")
        determinism.reseed(util.derive_seed(seed, "uuid"))
        sim = SimScheduler(_random.Random(util.derive_seed(seed, "sched")), policy=pol[0], policy_arg=pol[1])
        import warnings
        try:
            with warnings.catch_warnings():
                warnings.simplefilter("ignore")
                with np.errstate(all="ignore"), under(sim):
                    oa = OPS[ea["op"]]([r.da for r in ra], ea["params"])
                    ob = OPS[eb["op"]]([r.da for r in rb], eb["params"])
                    ca, cb = dask.compute(oa, ob)
        except Exception as exc:
            res["notes"]["joint_compute_raised:%s" % type(exc).__name__] += 1
            if prop == "C11":
                violation(step, "joint", eb, {"class": "joint_compute_raises", "with_entry": ea["id"],
                                              "exc": {"type": type(exc).__name__, "msg": str(exc)[:300]}})
            return
        res["faults"]["joint_compute"] += 1
        res["calls"] += 2
        res["dask_calls"] += 2
        res["sim_steps"] += sim.step
        for e, cres, other in ((ea, ca, eb), (eb, cb, ea)):
            canon = histsim.canon_result(cres)
            canon["lazy"] = True          # it was lazy when the library returned it
            dg = histsim.result_digest(canon)
            trace.update(("%d|j%d|%s;" % (step, e["id"], dg)).encode())
            res["pairs"].add((other["id"], e["id"]))
            if prop == "C11":
                ref = refs.get(str(e["id"]))
                if ref is not None and ref["digest"] != dg:
                    violation(step, "joint", e, {"class": "result_differs_from_fresh_interpreter",
                                                 "computed_together_with_entry": other["id"],
                                                 "got_digest": dg, "want_digest": ref["digest"], "_canon": canon})
        prev_entry = eb

    deferred = []

    def run_defer(step, e):
        """Build the lazy result now, compute it later (run_force)."""
        import warnings
        from .cases import OPS
        rs_ = get_rasters(e)
        try:
            with warnings.catch_warnings():
                warnings.simplefilter("ignore")
                with np.errstate(all="ignore"):
                    lazy = OPS[e["op"]]([r.da for r in rs_], e["params"])
        except Exception as exc:
            res["notes"]["defer_raised:%s" % type(exc).__name__] += 1
            return
        deferred.append((e, lazy, rs_))
        res["faults"]["deferred_compute"] += 1

    def run_force(step):
        nonlocal prev_entry
        if not deferred:
            return
        import random as _random
        import warnings
        from . import determinism
        from .graphsim import SimScheduler, under
        e, lazy, rs_ = deferred.pop(0)
        pol = draw_policy(rng)
        seed = util.derive_seed(hist["sched_seed"], step, "force")
        determinism.reseed(util.derive_seed(seed, "uuid"))
        sim = SimScheduler(_random.Random(util.derive_seed(seed, "sched")), policy=pol[0], policy_arg=pol[1])
        try:
            with warnings.catch_warnings():
                warnings.simplefilter("ignore")
                with np.errstate(all="ignore"), under(sim):
                    canon = histsim.canon_result(lazy)
        except Exception as exc:
            if prop == "C11":
                violation(step, "force", e, {"class": "deferred_compute_raises",
                                             "exc": {"type": type(exc).__name__, "msg": str(exc)[:300]}})
            return
        dg = histsim.result_digest(canon)
        res["calls"] += 1
        res["dask_calls"] += 1
        res["sim_steps"] += sim.step
        trace.update(("%d|f%d|%s;" % (step, e["id"], dg)).encode())
        if prop == "C11":
            ref = refs.get(str(e["id"]))
            if ref is not None and ref["digest"] != dg:
                violation(step, "force", e, {"class": "result_differs_from_fresh_interpreter",
                                             "computed_after_other_calls": True,
                                             "got_digest": dg, "want_digest": ref["digest"], "_canon": canon})

    ops = hist["ops"]
    i = start
    while i < len(ops):
        op = ops[i]
        k = op["k"]
        res["steps"] += 1
        if k == "call":
            one_call(i, ent[op["e"]])
        elif k == "interrupt":
            one_call(i, ent[op["e"]], interrupt_at=op["at"])
        elif k == "interrupt_sweep":
            e_ = ent[op["e"]]
            counter = Interrupter(10 ** 9)
            sys.settrace(counter)
            try:
                histsim.run_call(e_, get_rasters(e_), util.derive_seed(hist["sched_seed"], i, "count"), ("dfs", None))
            except BaseException:
                pass
            finally:
                sys.settrace(None)
            n_lines = min(counter.count, 160)
            res["faults"]["interrupt_sweeps"] += 1
            res["faults"]["interrupt_sweep_points"] += n_lines
            for at in range(1, n_lines + 1):
                one_call(i, e_, interrupt_at=at)
                if len(res["violations"]) >= max_violations:
                    break
        elif k == "scribble":
            if last is not None:
                e, rasters, o = last
                if e["identity"] not in ("window", "inplace"):
                    n = 0
                    for lab, arr in histsim._arrays_of(o.out):
                        if arr.flags.writeable and arr.size:
                            try:
                                arr[...] = histsim.SENTINEL
                                n += 1
                            except Exception:
                                pass
                    try:
                        if hasattr(o.out, "attrs"):
                            o.out.attrs["scribbled"] = True
                            o.out.attrs.pop("res", None)
                    except Exception:
                        pass
                    res["faults"]["scribble"] += 1
                    if prop == "C10":
                        for r in rasters:
                            for what, detail in r.problems(allow_widen=(e["identity"] == "viewshed")):
                                violation(i, "scribble", e, {"class": "scribble_shows_in_input_" + what,
                                                             "raster": r.rid, "detail": detail})
        elif k == "joint":
            run_joint(i, ent[op["e"][0]], ent[op["e"][1]])
        elif k == "defer":
            run_defer(i, ent[op["e"]])
        elif k == "force":
            run_force(i)
        elif k == "edit":
            n_edit = 0
            if shared:
                for key, r in list(pool.items()):
                    if r.rid == op["a"] and r.backend == "numpy" and r.arr.flags.writeable and not r.problems():
                        spec_b = pool_specs[op["b"]]
                        r.arr[...] = np.asarray(spec_b["data"])
                        r.spec = spec_b
                        r.rid = op["b"]
                        r.base_digest = histsim._buf_digest(r.base)
                        del pool[key]
                        pool[(op["b"],) + key[1:]] = r
                        n_edit += 1
            res["faults"]["user_edits_raster_in_place" if n_edit else "edit_without_live_raster"] += 1
        elif k == "bump":
            from .cases import OPS
            OPS["bump"]([], {"width": op["w"], "height": op["h"], "spread": op["spread"]})
            res["faults"]["bump_advances_global_rng"] += 1
        elif k == "threads":
            try:
                import numba
                numba.set_num_threads(min(op["n"], numba.config.NUMBA_NUM_THREADS))
                res["faults"]["thread_count_change"] += 1
            except Exception:
                res["notes"]["set_num_threads_failed"] += 1
        elif k == "restart":
            res["faults"]["restart"] += 1
            res["next"] = i + 1
            break
        if prop == "C10" and shared and k in ("call", "interrupt", "scribble"):
            # every *other* live pool raster must be untouched as well
            for key, r in list(pool.items()):
                if last is not None and r in last[1]:
                    continue
                probs = r.problems()
                if probs:
                    e = last[0] if last else {"id": -1, "op": "?", "family": "?"}
                    violation(i, k, e, {"class": "unrelated_pool_raster_" + probs[0][0], "raster": r.rid,
                                        "detail": probs[0][1]})
                    del pool[key]
        if len(res["violations"]) >= max_violations:
            break
        i += 1
    res["trace"] = trace.hexdigest()[:16]
    res["pairs"] = len(res["pairs"])
    res["param_transitions"] = len(res["param_transitions"])
    res["combos"] = sorted("|".join([c[0], c[1]] + list(c[2])) for c in res["combos"])
    res["by_family"] = dict(res["by_family"])
    res["faults"] = dict(res["faults"])
    res["notes"] = dict(res["notes"])
    return res

"""Seeded generators shared by the per-property case generators."""
import numpy as np

INT_DTYPES = ["u1", "i2", "i4", "i8", "u4", "u8"]
FLOAT_DTYPES = ["f4", "f8"]
ALL_DTYPES = INT_DTYPES + FLOAT_DTYPES


def composition(rng, n, p_cut=None):
    """A random composition of n (chunk sizes along one axis)."""
    if p_cut is None:
        p_cut = rng.choice([0.1, 0.5, 0.9, 1.0])
    out = []
    cur = 1
    for _ in range(n - 1):
        if rng.random() < p_cut:
            out.append(cur)
            cur = 1
        else:
            cur += 1
    out.append(cur)
    return out


def composition_max_blocks(rng, n, max_blocks, p_cut=None):
    c = composition(rng, n, p_cut)
    while len(c) > max_blocks:
        i = rng.randrange(len(c) - 1)
        c[i:i + 2] = [c[i] + c[i + 1]]
    return c


def chunks_for(rng, shape, max_blocks=None):
    if max_blocks is None:
        return [composition(rng, s) for s in shape]
    # split the block budget between the axes
    out = []
    budget = max_blocks
    axes = list(range(len(shape)))
    rng.shuffle(axes)
    res = {}
    for ax in axes:
        c = composition_max_blocks(rng, shape[ax], max(1, budget))
        res[ax] = c
        budget = max(1, budget // len(c))
    for ax in range(len(shape)):
        out.append(res[ax])
    return out


def all_compositions(n):
    """Every composition of n, in a fixed order (2**(n-1) of them)."""
    out = []
    for mask in range(1 << (n - 1)):
        c = []
        cur = 1
        for i in range(n - 1):
            if mask >> i & 1:
                c.append(cur)
                cur = 1
            else:
                cur += 1
        c.append(cur)
        out.append(c)
    return out


def values(rng, shape, dtype, style=None, nan_p=None, inf_p=None):
    """A raster's values. Styles mix ties, constants, extremes (DESIGN 2.4)."""
    nprs = np.random.RandomState(rng.getrandbits(32))
    dt = np.dtype(dtype)
    if style is None:
        style = rng.choice(["smooth", "ints", "patches", "pow2", "big", "neg", "steps", "tenths", "thirds"])
    n = int(np.prod(shape))
    if style == "smooth":
        a = nprs.uniform(0, 100, n)
    elif style == "ints":
        a = nprs.randint(0, 5, n).astype(float)
    elif style == "patches":
        a = np.repeat(nprs.randint(0, 4, (n + 2) // 3), 3)[:n].astype(float) * 10
    elif style == "pow2":
        a = 2.0 ** nprs.randint(0, 7, n)
    elif style == "big":
        a = nprs.choice([16777217.0, 16777216.0, 3.0, 1e6 + 0.5, 255.0, 65537.0], n)
    elif style == "neg":
        a = nprs.uniform(-50, 50, n)
    elif style == "tenths":
        # a non-dyadic lattice: class edges / thresholds computed in float32 vs float64 fall on
        # different sides of cells that sit exactly on them
        a = nprs.randint(0, 31, n) * 0.1
    elif style == "thirds":
        a = nprs.randint(0, 13, n) / 3.0
    else:  # steps
        a = np.arange(n, dtype=float) * rng.choice([0.5, 1.0, 3.0]) + rng.choice([0, 7, 100])
    if dt.kind == "u":
        a = np.abs(a)
    if dt.kind in "iu":
        info = np.iinfo(dt)
        a = np.clip(np.round(a), info.min, info.max)
    a = a.astype(dt).reshape(shape)
    if dt.kind == "f":
        if nan_p is None:
            nan_p = rng.choice([0.0, 0.0, 0.05, 0.3])
        if inf_p is None:
            inf_p = rng.choice([0.0, 0.0, 0.0, 0.04])
        if nan_p:
            a[nprs.rand(*shape) < nan_p] = np.nan
        if inf_p:
            m = nprs.rand(*shape) < inf_p
            a[m] = np.where(nprs.rand(int(m.sum())) < 0.5, np.inf, -np.inf)
    return a


def georef(rng, H, W, lonlat=False):
    """Coordinates and (maybe) a res attr; x != y cell sizes, descending y."""
    if lonlat:
        cx = rng.choice([0.5, 1.0, 2.0])
        cy = rng.choice([0.5, 1.0, 2.0])
        x0 = rng.choice([-60.0, 0.0, 10.0])
        y0 = rng.choice([-20.0, 0.0, 5.0])
    else:
        cx = rng.choice([0.5, 1.0, 2.0, 3.0, 10.0])
        cy = rng.choice([0.5, 1.0, 2.0, 3.0, 10.0])
        x0 = rng.choice([0.0, 100.0, -7.5])
        y0 = rng.choice([0.0, 50.0, -3.0])
    x = x0 + cx * np.arange(W)
    y = y0 + cy * np.arange(H)
    if rng.random() < 0.5:
        y = y[::-1].copy()
    attrs = {}
    mode = rng.choice(["res_tuple", "res_tuple", "coords", "res_scalar"])
    if H < 2 or W < 2:
        mode = rng.choice(["res_tuple", "res_scalar"])
    if mode == "res_tuple":
        attrs["res"] = (float(cx), float(cy))
    elif mode == "res_scalar":
        attrs["res"] = float(cx)
    return x, y, attrs, (cx, cy)


def raster(rng, H, W, dtype, style=None, name=None, lonlat=False, nan_p=None, inf_p=None,
           geo=None):
    data = values(rng, (H, W), dtype, style, nan_p, inf_p)
    if geo is None:
        geo = georef(rng, H, W, lonlat)
    x, y, attrs, _ = geo
    return {"data": data, "dims": ["y", "x"], "coords": {"y": y.copy(), "x": x.copy()},
            "attrs": dict(attrs), "name": name, "chunks": None}


def kernel_mask(rng, max_r, max_c, square_p=0.3):
    """Odd-shaped 0/1 kernel, non-square likely, centre may be 0, sum > 0."""
    rows = [r for r in (1, 3, 5, 7) if r // 2 <= max_r] or [1]
    cols = [c for c in (1, 3, 5, 7) if c // 2 <= max_c] or [1]
    if rng.random() < square_p:
        common = [r for r in rows if r in cols]
        kr = kc = rng.choice(common)
    else:
        kr, kc = rng.choice(rows), rng.choice(cols)
    mode = rng.choice(["ones", "random", "random", "cross"])
    k = np.ones((kr, kc))
    if mode == "random":
        nprs = np.random.RandomState(rng.getrandbits(32))
        k = (nprs.rand(kr, kc) < 0.6).astype(float)
    elif mode == "cross":
        k = np.zeros((kr, kc))
        k[kr // 2, :] = 1
        k[:, kc // 2] = 1
    if k.sum() == 0:
        k[rng.randrange(kr), rng.randrange(kc)] = 1
    return k


def kernel_weights(rng, max_r, max_c):
    k = kernel_mask(rng, max_r, max_c)
    nprs = np.random.RandomState(rng.getrandbits(32))
    w = np.round(nprs.uniform(-2, 3, k.shape), 2)
    if rng.random() < 0.5:
        w = w * k
    if w.sum() == 0:
        w[0, 0] += 1.0
    return w

"""Worker process for the graphsim properties (C01, C03, C07).

Runs the indices it owns, in increasing order, until the budget is spent (or
exactly the indices < --runs).  Prints JSON lines; the orchestrator merges.
"""
import argparse
import collections
import faulthandler
import json
import os
import sys
import time
import traceback

from . import determinism

determinism.ensure_hashseed(["-m", "dst.worker_graph"] + sys.argv[1:]) if __name__ == "__main__" else None

from . import util  # noqa: E402
from .graphsim import draw_policy  # noqa: E402
from . import findings  # noqa: E402
from .minimise import Budget, minimise  # noqa: E402
from .props import GRAPH_PROPS  # noqa: E402
from .run_graph import numpy_reference, run_case  # noqa: E402


def emit(obj):
    sys.stdout.write(json.dumps(util.to_jsonable(obj), allow_nan=False) + "\n")
    sys.stdout.flush()


def sched_for(seed, pid, i, st):
    pol, arg = draw_policy(st["policy"])
    return {"seed": util.derive_seed(seed, pid, i, "run"), "policy": pol, "policy_arg": arg}


def make_replay(pid, case, sched, outcome, P, info, minimised, log=None):
    sim = outcome.get("sim")
    s = {k: v for k, v in sched.items() if k != "replay"}
    s["faults"] = [{"kind": f["kind"], "step": f["step"]} for f in (sched.get("faults") or [])]
    s["replay"] = sim.schedule() if sim is not None else []
    v = outcome["violation"]
    return {"property": pid, "engine": "graphsim", "case": case, "sched": s,
            "violation": v, "signature": P.signature(case, v), "minimised": minimised,
            "minimise_log": log or [], "info": info,
            "fired": sim.fired if sim is not None else []}


def fresh_replay(path):
    """Replay a file in a fresh interpreter: True if it prints a VIOLATION (exit 1)."""
    import subprocess
    env = determinism.child_env()
    try:
        r = subprocess.run([sys.executable, "-c", "import sys; from dst.main import main; sys.exit(main())",
                            "C00", "--replay", path], capture_output=True, text=True, env=env,
                           cwd=os.path.dirname(os.path.dirname(os.path.abspath(__file__))), timeout=900)
    except Exception:
        return False
    return r.returncode == 1 and "VIOLATION" in r.stdout


def report_violation(pid, P, case, sched, outcome, info, outdir, tag, do_min=True, prelude=()):
    cls = outcome["violation"]["class"]
    orig = make_replay(pid, case, sched, outcome, P, info, False)
    os.makedirs(outdir, exist_ok=True)
    p_orig = os.path.join(outdir, "%s-%s.orig.json" % (pid, tag))
    util.dump_file(p_orig, orig)
    if prelude and not fresh_replay(p_orig):
        # the case alone does not fail in a fresh interpreter: the violation needs what this process
        # executed before it.  Record those cases as a prelude (replayed first); no minimisation.
        orig["prelude"] = [{"case": c, "sched": {k: v for k, v in s.items() if k != "replay"}} for c, s in prelude]
        orig["note"] = ("history-dependent: the case alone does not fail in a fresh interpreter; the cases this "
                        "process executed before it are recorded as 'prelude' and replayed first")
        util.dump_file(p_orig, orig)
        orig["prelude_reproduces_in_fresh_interpreter"] = fresh_replay(p_orig)
        util.dump_file(p_orig, orig)
        return p_orig, orig
    path = p_orig
    if do_min:
        def fails(c, s):
            o = run_case(c, s, P.compare)
            return (o["violation"]["class"] if o["status"] == "violation" else None), o
        try:
            mc, ms, log = minimise(case, sched, fails, cls, P.simplify, Budget(), valid=P.valid)
            o = run_case(mc, ms, P.compare)
            if o["status"] == "violation" and o["violation"]["class"] == cls:
                rep = make_replay(pid, mc, ms, o, P, info, True, log)
                path = os.path.join(outdir, "%s-%s.json" % (pid, tag))
                util.dump_file(path, rep)
                orig = rep
        except Exception:
            emit({"t": "note", "note": "minimise failed", "trace": traceback.format_exc()[-800:]})
    return path, orig


def main(argv=None):
    ap = argparse.ArgumentParser()
    ap.add_argument("prop")
    ap.add_argument("--seed", type=int, default=0)
    ap.add_argument("--tier", default="quick")
    ap.add_argument("--worker", type=int, default=0)
    ap.add_argument("--nworkers", type=int, default=1)
    ap.add_argument("--budget", type=float, default=60.0)
    ap.add_argument("--runs", type=int, default=None)
    ap.add_argument("--outdir", default="/verif/replays")
    ap.add_argument("--max-violations", type=int, default=3)
    ap.add_argument("--info", default="{}")
    ap.add_argument("--op", default=os.environ.get("VERIF_ONLY_OP"))
    a = ap.parse_args(argv)
    faulthandler.enable()
    P = GRAPH_PROPS[a.prop]
    info = dict(json.loads(a.info), seed=a.seed, tier=a.tier)
    t0 = time.monotonic()

    C = collections.Counter()
    by_op = collections.Counter()
    by_policy = collections.Counter()
    fired = collections.Counter()
    discards = collections.Counter()
    reach = collections.Counter()
    notes = collections.Counter()
    distinct = set()
    sched_digests = set()
    samples = []
    seen_sigs = collections.Counter()
    nviol = 0
    import hashlib
    trace = hashlib.sha256()
    trace_nk = hashlib.sha256()
    known = findings.load()
    known_hits = collections.Counter()
    threads_done = set()
    targeted_seen = collections.Counter()
    recent = collections.deque(maxlen=2)     # last cases this process executed (prelude of a replay)
    recent_op = collections.defaultdict(lambda: collections.deque(maxlen=2))   # ... and the last of the same op
    i = -1
    last_i = -1
    while True:
        i += 1
        if a.runs is not None and i >= a.runs:
            break
        if a.runs is None and time.monotonic() - t0 > a.budget:
            break
        st = util.Streams(a.seed, a.prop, i)
        if P.shard is not None:
            case = P.gen(st, i, a.tier, op=a.op) if a.op else P.gen(st, i, a.tier)
            sh = P.shard(case)
            owner = None
            if P.assignment is not None and not a.op:
                owner = P.assignment(a.nworkers, a.tier).get(sh)
            if owner is None:
                owner = util.derive_seed("shard", sh) % a.nworkers
            if owner != a.worker:
                continue
        else:
            if (i % a.nworkers if a.op else P.owner(i, a.nworkers)) != a.worker:
                continue
            case = P.gen(st, i, a.tier, op=a.op) if a.op else P.gen(st, i, a.tier)
        last_i = i
        sched = sched_for(a.seed, a.prop, i, st)
        want, why = numpy_reference(case)
        C["cases"] += 1
        if why:
            discards[why] += 1
            continue
        frng = st["fault"]
        plan = [(case, dict(sched), want)]
        base_case = case
        r = frng.random()
        want_fault = r < P.fault_rate
        if frng.random() < P.fault_rate / 2:
            # "blind" abort: the faulted execution comes FIRST, without a clean run of this case before it
            # (so whatever state the previous cases left in the process is what the retry meets); the
            # step is drawn without knowing the graph size and may lie beyond it (then nothing fires)
            k = int(frng.expovariate(1 / 10.0))
            kind = frng.choice(["abort_before", "abort_after"])
            plan.insert(0, (case, dict(sched, faults=[{"kind": kind, "step": k}], blind=True), want))
        want_probe = (not want_fault) and r < P.fault_rate + 0.04
        for rk, rv in P.reach(case).items():
            if rv:
                reach[rk] += 1
        run_no = 0
        while plan:
            case, s, want_ = plan.pop(0)
            probe = bool(s.get("reexec_rate"))
            o = run_case(case, s, P.compare, want=want_, m1=True)
            if not s.get("blind"):
                run_no += 1
            sim = o.get("sim")
            C["evaluations"] += 1
            by_op[case["op"]] += 1
            by_policy[s["policy"] if not s.get("replay") else "replay"] += 1
            if o["status"] == "discard":
                discards[o["reason"]] += 1
                break
            C["steps"] += sim.step
            trace.update(("%d|%s|%s|%s;" % (i, sim.schedule_digest(), o.get("got_digest"), o["status"])).encode())
            trace_nk.update(("%d|%s|%s|%s;" % (i, sim.choice_digest(), o.get("got_digest"), o["status"])).encode())
            C["choice_points"] += sim.choice_points
            C["gets"] += sim.n_gets
            if sim.max_depth > 1:
                reach["nested_compute"] += 1
            if sim.n_gets > 1:
                reach["more_than_one_compute"] += 1
            if sim.mutations:
                reach["mutating_task"] += 1
                notes["probe=mutating-task op=%s" % case["op"]] += 1
            if sim.watch_hits:
                notes["probe=caller-buffer-written op=%s" % case["op"]] += 1
            if sim.reexec_diffs:
                notes["probe=nonidempotent-task op=%s" % case["op"]] += 1
            C["max_pool"] = max(C["max_pool"], sim.max_pool)
            for f in sim.fired:
                fired[f["kind"]] += 1
            sched_digests.add(sim.schedule_digest())
            nontrivial = reach_nontrivial(case, s, sim)
            if nontrivial:
                distinct.add((util.obj_digest(case), sim.schedule_digest(), repr(sim.fired)))
                if len(samples) < 3:
                    samples.append(sample_of(case, s, sim))
            if o["status"] == "violation":
                if probe:
                    notes["probe=result-differs-under-reexecution op=%s" % case["op"]] += 1
                    break
                sig = P.signature(case, o["violation"])
                kf = findings.match(known, a.prop, sig)
                if kf is not None:
                    known_hits[kf["id"]] += 1
                    break
                key = json.dumps(sig, sort_keys=True)
                seen_sigs[key] += 1
                if seen_sigs[key] <= 1 and nviol < a.max_violations:
                    nviol += 1
                    path, rep = report_violation(a.prop, P, case, s, o, dict(info, run=i), a.outdir,
                                                 "s%d-r%d" % (a.seed, i),
                                                 prelude=[x for x in list(recent_op[case["op"]]) + list(recent)
                                                          if x[0] is not case][:4])
                    emit({"t": "violation", "run": i, "replay": path, "signature": rep["signature"],
                          "violation": rep["violation"], "op": case["op"]})
                else:
                    emit({"t": "violation_dup", "run": i, "signature": sig})
                break
            if s.get("blind"):
                reach["blind_abort_runs"] += 1
                continue
            if run_no == 1:
                recent.append((case, dict(s)))
                recent_op[case["op"]].append((case, dict(s)))
            if sim.mutations and any(m.get("in_task_definition") for m in sim.mutations) \
                    and case["op"] not in threads_done and o["status"] == "ok":
                # M1: a task wrote to an array that lives in the task definition, i.e. is shared by every
                # block task.  Atomic-task simulation cannot interleave two compiled kernels: fall back to
                # the labelled real-thread differential (observation, not simulation) for this op.
                threads_done.add(case["op"])
                from . import realthreads
                found, tinfo = realthreads.dask_threads_differential(case, P.compare)
                C["real_thread_differentials"] += 1
                notes["probe=task-writes-shared-definition-array op=%s" % case["op"]] += 1
                if found is not None:
                    v, big = found
                    sig = P.signature(big, v)
                    if findings.match(known, a.prop, sig) is None and nviol < a.max_violations:
                        nviol += 1
                        os.makedirs(a.outdir, exist_ok=True)
                        path = os.path.join(a.outdir, "%s-s%d-r%d-threads.json" % (a.prop, a.seed, i))
                        util.dump_file(path, {"property": a.prop, "engine": "real_threads", "case": big,
                                              "workers": 16, "violation": v, "signature": sig,
                                              "m1": sim.mutations[:3], "info": dict(info, run=i),
                                              "note": "real dask.threaded executions, not simulation; replay repeats "
                                                      "the threaded compute up to 30 times"})
                        emit({"t": "violation", "run": i, "replay": path, "signature": sig, "violation": v,
                              "op": case["op"]})
            if sim.rng_tasks and case.get("pair") and ("rng", case["op"]) not in threads_done and o["status"] == "ok":
                # a task changed numpy's global RNG state: process-global state inside tasks that the threaded
                # scheduler runs concurrently.  Atomic-task simulation cannot interleave them: labelled fallback.
                threads_done.add(("rng", case["op"]))
                from . import realthreads
                found, tinfo = realthreads.dask_threads_pair_differential(case, P.compare)
                C["real_thread_differentials"] += 1
                notes["probe=task-changes-global-rng op=%s" % case["op"]] += 1
                if found is not None:
                    v, pc = found
                    sig = P.signature(pc, v)
                    if findings.match(known, a.prop, sig) is None and nviol < a.max_violations:
                        nviol += 1
                        os.makedirs(a.outdir, exist_ok=True)
                        path = os.path.join(a.outdir, "%s-s%d-r%d-threads-pair.json" % (a.prop, a.seed, i))
                        util.dump_file(path, {"property": a.prop, "engine": "real_threads", "pair_mode": True, "case": pc,
                                              "workers": 8, "violation": v, "signature": sig, "rng_tasks": sim.rng_tasks[:3],
                                              "info": dict(info, run=i),
                                              "note": "real dask.threaded executions of two lazy results in one compute, "
                                                      "not simulation; replay repeats it up to 30 times"})
                        emit({"t": "violation", "run": i, "replay": path, "signature": sig, "violation": v,
                              "op": case["op"]})
            elif sim.rng_tasks:
                notes["probe=task-changes-global-rng op=%s" % case["op"]] += 1
            if run_no == 1 and want_fault and sim.step > 0:
                k = frng.randrange(sim.step)
                kind = frng.choice(["abort_before", "abort_after"])
                plan.append((case, dict(sched, faults=[{"kind": kind, "step": k}]), want_))
            elif run_no == 1 and want_probe:
                plan.append((case, dict(sched, reexec_rate=0.3), want_))
            if sim.mutations and not s.get("targeted") and o["status"] == "ok":
                targeted_seen[case["op"]] += 1
            if sim.mutations and not s.get("targeted") and o["status"] == "ok" \
                    and (targeted_seen[case["op"]] <= 6 or targeted_seen[case["op"]] % 8 == 0):
                # M1 fired: a task changed one of its arguments.  Not a violation by itself; steer the
                # search - the mutating tasks before, then after, every other consumer of that object
                keys = sorted({m["key"] for m in sim.mutations})
                for mode in ("first", "last"):
                    plan.append((case, dict(s, policy="prefer", policy_arg={"keys": keys, "mode": mode},
                                            targeted=True, faults=[], reexec_rate=0.0), want_))
                reach["targeted_followups"] += 2
            if sim.watch_hits and P.followups is not None and run_no == 1 and o["status"] == "ok":
                # M2 fired: some task wrote to a caller-owned buffer.  C10's matter by itself; here it steers
                # the search - call again on the same objects with parameters that would expose the change
                for fc in P.followups(case, st):
                    plan.append((fc, dict(sched), want_))
                reach["m2_followups"] += 1
            if run_no == 1 and P.variants is not None:
                for vn, (vc, own_ref) in enumerate(P.variants(base_case, st)):
                    pol, arg = draw_policy(st["policy-variant%d" % vn])
                    vwant = want
                    if own_ref:
                        vwant, vwhy = numpy_reference(vc)
                        if vwhy:
                            discards["variant_" + vwhy] += 1
                            continue
                        reach["variant_other_raster_same_shape_and_chunks"] += 1
                    plan.append((vc, {"seed": util.derive_seed(a.seed, a.prop, i, "variant", vn),
                                      "policy": pol, "policy_arg": arg}, vwant))
    emit({"t": "summary", "worker": a.worker, "counts": dict(C), "by_op": dict(by_op),
          "by_policy": dict(by_policy), "fired": dict(fired), "discards": dict(discards),
          "reach": dict(reach), "notes": dict(notes), "distinct_nontrivial": len(distinct), "distinct_schedules": len(sched_digests),
          "samples": samples, "last_index": last_i, "wall_s": time.monotonic() - t0,
          "dup_signatures": dict(seen_sigs), "known_hits": dict(known_hits),
          "trace_digest": trace.hexdigest()[:16], "trace_digest_nokeys": trace_nk.hexdigest()[:16]})
    return 0


def reach_nontrivial(case, s, sim):
    multi = any(len(ax) > 1 for r in case["rasters"] for ax in (r.get("chunks") or []))
    return multi and (s.get("policy") != "dfs" or bool(sim.fired)) and sim.choice_points > 0


def sample_of(case, s, sim):
    return {"op": case["op"], "params": case["params"],
            "rasters": [{"shape": list(r["data"].shape), "dtype": str(r["data"].dtype),
                         "chunks": r.get("chunks"), "attrs": r.get("attrs")} for r in case["rasters"]],
            "dask_config": case.get("dask_config"), "policy": [s.get("policy"), s.get("policy_arg")],
            "faults": s.get("faults") or [], "steps": sim.step,
            "schedule_head": [x[1] for x in sim.log[:20]]}


if __name__ == "__main__":
    try:
        sys.exit(main())
    except Exception:
        emit({"t": "error", "trace": traceback.format_exc()})
        sys.exit(3)

"""Real-thread differential - the labelled fallback of DESIGN 2.2 / C11.

NOT simulation: observation of real executions whose interleaving we do not
control.  It exists because pre-emption inside a compiled (nogil / parallel)
kernel cannot be put behind a seam.  It is run only when a probe says the
simulator cannot decide the case:

* C01/C03/C07: monitor M1 saw a task write to an array that lives in the task
  *definition* (bound into the function every block runs), i.e. a buffer shared
  by tasks that the threaded scheduler runs concurrently;
* C11: probe P5 found a Numba dispatcher compiled with parallel=True.

A mismatch is a genuine violation of "for every Dask scheduler and worker
count" / "results do not vary with the number of worker threads" (reported
with replay_may_be_probabilistic); a clean differential is NOT counted as
evidence for the claim.
"""
import copy
import warnings

import dask
import numpy as np

from .cases import OPS, materialise

TARGET = (192, 224)


def enlarge_case(case, target=TARGET, blocks=(4, 4)):
    """Tile every raster of the case up to ~target cells per axis (y, x), continue the
    coordinates with the same spacing and chunk it into blocks x blocks."""
    c = copy.deepcopy(case)
    for r in c["rasters"]:
        d = np.asarray(r["data"])
        dims = list(r["dims"])
        ay, ax = dims.index("y"), dims.index("x")
        reps = [1] * d.ndim
        reps[ay] = max(1, -(-target[0] // d.shape[ay]))
        reps[ax] = max(1, -(-target[1] // d.shape[ax]))
        big = np.tile(d, reps)
        r["data"] = big
        for dim, axis in (("y", ay), ("x", ax)):
            cv = np.asarray(r["coords"][dim], dtype=float)
            step = (cv[1] - cv[0]) if len(cv) > 1 else 1.0
            r["coords"][dim] = cv[0] + step * np.arange(big.shape[axis])
        ch = []
        for axis in range(big.ndim):
            n = big.shape[axis]
            if axis in (ay, ax):
                b = blocks[0] if axis == ay else blocks[1]
                size = -(-n // b)
                parts = [size] * (n // size) + ([n % size] if n % size else [])
                ch.append(parts)
            else:
                ch.append([n])
        r["chunks"] = ch
    return c


def dask_threads_differential(case, compare, reps=6, workers=16):
    """Returns (violation | None, info).  Real dask.threaded scheduler, real threads."""
    from .run_graph import build_with_bases, numpy_reference
    big = enlarge_case(case)
    want, why = numpy_reference(big)
    info = {"shape": list(np.asarray(big["rasters"][0]["data"]).shape), "reps": reps, "workers": workers}
    if why:
        info["skipped"] = why
        return None, info
    with warnings.catch_warnings():
        warnings.simplefilter("ignore")
        with np.errstate(all="ignore"):
            for k in range(reps):
                rasters, _ = build_with_bases(big, "dask")
                with dask.config.set(scheduler="threads", num_workers=workers):
                    got = materialise(OPS[big["op"]](rasters, big["params"]))
                v = compare(big, got, want)
                if v is not None:
                    v = dict(v)
                    v["class"] = "real_threads_" + v.get("class", "mismatch")
                    v["repetition"] = k
                    v["replay_may_be_probabilistic"] = True
                    info["mismatch_at_rep"] = k
                    return (v, big), info
    return None, info


def dask_threads_pair_differential(case, compare, reps=5, workers=8):
    """The two lazy results of a pair case computed together by the real threaded scheduler
    (triggered when a task was seen touching process-global state, e.g. numpy's global RNG)."""
    from .run_graph import build_with_bases, numpy_reference, pair_case
    c2 = pair_case(case)
    want1, why1 = numpy_reference({k: v for k, v in case.items() if k != "pair"})
    want2, why2 = numpy_reference(c2)
    info = {"reps": reps, "workers": workers, "pair": True}
    if why1 or why2:
        info["skipped"] = why1 or why2
        return None, info
    with warnings.catch_warnings():
        warnings.simplefilter("ignore")
        with np.errstate(all="ignore"):
            for k in range(reps):
                rasters, _ = build_with_bases(case, "dask")
                with dask.config.set(scheduler="threads", num_workers=workers):
                    l1 = OPS[case["op"]](rasters, case["params"])
                    l2 = OPS[case["op"]](rasters, c2["params"])
                    g1, g2 = dask.compute(l1, l2)
                for which, c, got, want in (("first", case, materialise(g1), want1), ("second", c2, materialise(g2), want2)):
                    v = compare(c, got, want)
                    if v is not None:
                        v = dict(v)
                        v["class"] = "real_threads_pair_" + v.get("class", "mismatch")
                        v["which_of_the_pair"] = which
                        v["repetition"] = k
                        v["replay_may_be_probabilistic"] = True
                        return (v, case), info
    return None, info


def replay_dask_threads(rep, compare, reps=30):
    if rep.get("pair_mode"):
        for _ in range(6):
            found, _info = dask_threads_pair_differential(rep["case"], compare, reps=5, workers=rep.get("workers", 8))
            if found is not None:
                return found[0]
        return None
    from .run_graph import build_with_bases, numpy_reference
    big = rep["case"]
    want, why = numpy_reference(big)
    if why:
        return None
    with warnings.catch_warnings():
        warnings.simplefilter("ignore")
        with np.errstate(all="ignore"):
            for k in range(reps):
                rasters, _ = build_with_bases(big, "dask")
                with dask.config.set(scheduler="threads", num_workers=rep.get("workers", 16)):
                    got = materialise(OPS[big["op"]](rasters, big["params"]))
                v = compare(big, got, want)
                if v is not None:
                    v["repetition"] = k
                    return v
    return None


# --------------------------------------------------------------------------
# C11 / P5: Numba worker threads
# --------------------------------------------------------------------------

def enlarge_entry(cat, entry, target=TARGET):
    """(entry, pool) with every raster of the entry tiled up to ~target."""
    pool = {}
    for rid in entry["rasters"]:
        spec = copy.deepcopy(cat["pool"][rid])
        fake = {"rasters": [spec]}
        if "y" in spec["dims"] and "x" in spec["dims"]:
            spec = enlarge_case(fake, target)["rasters"][0]
        spec["layout"] = "C"
        pool[rid] = spec
    return pool


def _enlarged_variants(cat, e):
    """(entry, pool) pairs: the call on an enlarged raster.  For a_star_search the geometry of the
    call grows with the raster (an interior pair and corner to corner), once on the tiled surface and
    once on a barrier-free one (its result depends on barriers and geometry only)."""
    pool = enlarge_entry(cat, e)
    if e["op"] != "a_star_search":
        return [(e, pool)]
    out = []
    rid = e["rasters"][0]
    flat = copy.deepcopy(pool)
    flat[rid]["data"] = np.ones(np.asarray(pool[rid]["data"]).shape, dtype=np.float64)
    for pl in (flat, pool):
        ys, xs = pl[rid]["coords"]["y"], pl[rid]["coords"]["x"]

        def pt(f, g):
            return (float(ys[int(f * (len(ys) - 1))]), float(xs[int(g * (len(xs) - 1))]))
        for a, b in (((0.14, 0.15), (0.83, 0.44)), ((0.0, 0.0), (1.0, 1.0))):
            out.append((dict(e, params=dict(e["params"], start=pt(*a), goal=pt(*b))), pl))
    return out


def numba_threads_differential(cat, entries, reps=4, counts=(2, 3, 4, 16), variants=True):
    """Run NumPy-backed entries on enlarged rasters with 1 Numba thread, then with more;
    any difference is a violation of the thread-count clause.  Runs in the calling process
    (meant for a child forked from the zygote)."""
    import numba
    from . import histsim
    out = []
    checked = 0
    for e in entries:
        if e["backend"] != "numpy" or e.get("expect_error") or e["private"]:
            continue
        for e_, pool in (_enlarged_variants(cat, e) if variants else [(e, cat["pool"])]):
            def once():
                rasters = [histsim.PoolRaster(rid, pool[rid], "numpy") for rid in e_["rasters"]]
                return histsim.run_call(e_, rasters)
            try:
                numba.set_num_threads(1)
                base = once()
            except Exception:
                continue
            if base.exc is not None:
                continue
            checked += 1
            bad = None
            for n in counts:
                numba.set_num_threads(min(n, numba.config.NUMBA_NUM_THREADS))
                for k in range(reps):
                    o = once()
                    if o.digest != base.digest:
                        bad = {"class": "result_varies_with_numba_threads", "threads": n, "repetition": k,
                               "entry": e_["id"], "op": e_["op"], "family": e_["family"],
                               "first_difference": histsim.result_diff(o.canon, base.canon),
                               "replay_may_be_probabilistic": True, "_entry": e_}
                        break
                if bad:
                    break
            numba.set_num_threads(1)
            if bad:
                out.append((bad, pool))
                break
        if len(out) >= 2:
            break
    return out, checked

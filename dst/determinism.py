"""Seams that make one seed one execution (DESIGN 2.1, 2.3).

* re-exec the interpreter with PYTHONHASHSEED=0 (dask-expr key names and set
  orders depend on it),
* make the *current working tree* of /repo the xrspatial that is imported,
* deterministic dask tokens for Numba dispatchers (otherwise random uuids),
* PRNG-driven uuid.uuid4/uuid1 (dask.delayed(pure=False) names, from_array of
  unhashable objects, ...).

None of this touches /repo; it is harness-process-only monkeypatching of
dependencies.
"""
import os
import random
import sys
import uuid as _uuid

REPO = os.environ.get("VERIF_REPO", "/repo")
HASHSEED = os.environ.get("VERIF_HASHSEED", "0")


def ensure_hashseed(argv=None):
    """Re-exec with the pinned PYTHONHASHSEED unless already there."""
    if os.environ.get("PYTHONHASHSEED") != HASHSEED:
        env = dict(os.environ)
        env["PYTHONHASHSEED"] = HASHSEED
        argv = argv or sys.argv
        os.execve(sys.executable, [sys.executable] + argv, env)


def child_env(extra=None):
    env = dict(os.environ)
    env["PYTHONHASHSEED"] = HASHSEED
    env.setdefault("NUMBA_DISABLE_PERFORMANCE_WARNINGS", "1")
    # keep BLAS/OpenMP pools from competing with our own process pool
    for k in ("OMP_NUM_THREADS", "OPENBLAS_NUM_THREADS", "MKL_NUM_THREADS"):
        env.setdefault(k, "1")
    env["PYTHONPATH"] = os.pathsep.join(
        [os.path.dirname(os.path.dirname(os.path.abspath(__file__))), REPO]
        + [p for p in env.get("PYTHONPATH", "").split(os.pathsep) if p])
    if extra:
        env.update(extra)
    return env


def use_repo_tree():
    """Import xrspatial from /repo's working tree and prove it."""
    if REPO not in sys.path[:1]:
        sys.path.insert(0, REPO)
    import xrspatial
    f = os.path.realpath(xrspatial.__file__)
    if not f.startswith(os.path.realpath(REPO) + os.sep):
        raise RuntimeError("xrspatial imported from %s, not from %s" % (f, REPO))
    return xrspatial


# --------------------------------------------------------------------------
# uuid
# --------------------------------------------------------------------------

class _UuidSource:
    def __init__(self):
        self.rng = random.Random(0)
        self.draws = 0

    def reseed(self, seed):
        self.rng = random.Random(seed)
        self.draws = 0

    def uuid4(self):
        self.draws += 1
        return _uuid.UUID(int=self.rng.getrandbits(128), version=4)

    def uuid1(self, node=None, clock_seq=None):
        self.draws += 1
        return _uuid.UUID(int=self.rng.getrandbits(128), version=1)


class _IdSource:
    """Stand-in for builtins.id inside two dask modules that build layer names from
    str(id(collection)) (memory addresses differ from process to process, and those names feed
    dask-expr tokens and therefore task keys).  Numbers are handed out in first-use order, which
    is a function of the program, so keys become a function of the run's seed only.  Two live
    objects always get different numbers (every numbered object is kept alive until the next
    reseed, so no address is reused while its number is in the table)."""

    def __init__(self):
        self.map = {}
        self.n = 0

    def reseed(self):
        self.map = {}
        self.n = 0

    def __call__(self, obj):
        k = _real_id(obj)
        v = self.map.get(k)
        if v is None:
            self.n += 1
            # keep the object alive until the next reseed: its address cannot be reused by another
            # object meanwhile, so a number is never shared (address reuse is not reproducible)
            v = self.map[k] = (10 ** 12 + self.n, obj)
        return v[0]


_real_id = id
IDS = _IdSource()
UUIDS = _UuidSource()
_installed = False


def _cell_token(v):
    import numpy as np
    from dask.tokenize import normalize_token
    if isinstance(v, np.ndarray):
        return ("nd", str(v.dtype), v.shape, v.tobytes())
    try:
        return normalize_token(v)
    except Exception:
        return repr(type(v))


def install():
    """Idempotent: install uuid and token seams in this process."""
    global _installed
    if _installed:
        return
    _installed = True
    _uuid.uuid4 = UUIDS.uuid4
    _uuid.uuid1 = UUIDS.uuid1
    import dask._expr
    import dask.highlevelgraph
    import dask.array.optimization
    import dask.delayed
    for mod in (dask._expr, dask.highlevelgraph, dask.delayed, dask.array.optimization):
        mod.id = IDS

    from dask.tokenize import normalize_token
    from numba.core.dispatcher import Dispatcher

    @normalize_token.register(Dispatcher)
    def _norm_dispatcher(d):
        py = d.py_func
        cells = ()
        if py.__closure__:
            out = []
            for name, c in zip(py.__code__.co_freevars, py.__closure__):
                try:
                    out.append((name, _cell_token(c.cell_contents)))
                except ValueError:
                    out.append((name, "<empty>"))
            cells = tuple(out)
        return ("numba-dispatcher", py.__module__, py.__qualname__, cells)


def reseed(seed):
    """Start of a run: make names a function of the run's seed only."""
    UUIDS.reseed(seed)
    IDS.reseed()

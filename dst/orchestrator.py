"""Spawn worker interpreters, collect their JSON lines, enforce wall time-outs.

Exit codes of a check (DESIGN 2.9): 0 held / only known findings; 1 unlisted
violation(s); 2 harness error (worker crash, time-out).  A time-out kill can
never yield 0.
"""
import json
import os
import subprocess
import sys
import threading
import time

from . import determinism

VERIF = os.path.dirname(os.path.dirname(os.path.abspath(__file__)))


def repo_info():
    def git(*a):
        try:
            return subprocess.run(["git", "-C", determinism.REPO] + list(a), capture_output=True,
                                  text=True, timeout=30).stdout.strip()
        except Exception:
            return ""
    head = git("rev-parse", "HEAD")
    diff = git("diff", "HEAD", "--stat")
    import hashlib
    dirty = hashlib.sha256(git("diff", "HEAD").encode()).hexdigest()[:12] if diff else ""
    return {"repo_head": head, "repo_dirty": dirty}


class WorkerResult:
    def __init__(self, idx):
        self.idx = idx
        self.msgs = []
        self.rc = None
        self.stderr_tail = ""
        self.timed_out = False


def run_workers(module, argv_per_worker, wall_timeout, extra_env=None, on_msg=None):
    """Start one interpreter per argv; returns [WorkerResult]."""
    procs = []
    results = []
    env = determinism.child_env(extra_env)
    for idx, argv in enumerate(argv_per_worker):
        p = subprocess.Popen([sys.executable, "-m", module] + [str(a) for a in argv],
                             stdout=subprocess.PIPE, stderr=subprocess.PIPE, env=env, cwd=VERIF,
                             text=True)
        r = WorkerResult(idx)
        procs.append(p)
        results.append(r)

    def pump(p, r):
        for line in p.stdout:
            line = line.strip()
            if not line.startswith("{"):
                continue
            try:
                m = json.loads(line)
            except ValueError:
                continue
            r.msgs.append(m)
            if on_msg:
                on_msg(r.idx, m)

    def pump_err(p, r):
        buf = []
        for line in p.stderr:
            buf.append(line)
            if len(buf) > 60:
                buf.pop(0)
        r.stderr_tail = "".join(buf)

    threads = []
    for p, r in zip(procs, results):
        for fn in (pump, pump_err):
            t = threading.Thread(target=fn, args=(p, r), daemon=True)
            t.start()
            threads.append(t)
    deadline = time.monotonic() + wall_timeout
    for p, r in zip(procs, results):
        left = deadline - time.monotonic()
        try:
            r.rc = p.wait(timeout=max(0.1, left))
        except subprocess.TimeoutExpired:
            r.timed_out = True
            p.kill()
            r.rc = p.wait()
    for t in threads:
        t.join(timeout=5)
    return results


def harness_errors(results):
    errs = []
    for r in results:
        if r.timed_out:
            errs.append("worker %d killed on wall time-out" % r.idx)
        elif r.rc != 0:
            tr = [m.get("trace", "") for m in r.msgs if m.get("t") == "error"]
            errs.append("worker %d exit %s: %s" % (r.idx, r.rc, (tr[-1] if tr else r.stderr_tail)[-1500:]))
        elif not any(m.get("t") == "summary" for m in r.msgs):
            errs.append("worker %d produced no summary" % r.idx)
    return errs

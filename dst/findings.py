"""known_findings.json: genuine, unrepaired defects, matched by *specific* signature.

Read-only at run time.  An entry suppresses only violations whose signature
contains every key/value of its "match"; anything else of the same property is
still a VIOLATION.  "fixed" entries are documentation and suppress nothing.
"""
import json
import os

PATH = os.path.join(os.path.dirname(os.path.dirname(os.path.abspath(__file__))), "known_findings.json")


def load():
    try:
        with open(PATH) as f:
            d = json.load(f)
    except FileNotFoundError:
        return []
    return [e for e in d.get("findings", []) if e.get("status", "open") == "open"]


def match(findings, pid, sig):
    for e in findings:
        if e.get("property") != pid:
            continue
        m = e.get("match", {})
        if all(sig.get(k) == v for k, v in m.items()):
            return e
    return None
